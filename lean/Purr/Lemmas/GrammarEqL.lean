/-
  The reader accepts exactly the documented grammar, and reports the grammar's error position:
  `read` (Purr/Model/Reader.lean, the model of src/read) and `Spec.classify` (Purr/Spec/Automaton.lean, the
  documented grammar) give the same verdict on every string.  Token by token: every token reader is shown to
  consume exactly the characters the automaton runs through, and to fail exactly where the automaton has no move.
-/
import Purr.Lemmas.AutomatonL
import Purr.Lemmas.ShapeL
namespace Purr
open Purr.Spec

/-- the verdict the reader's failure remainder stands for, in an input of `n` characters -/
def failV (n : Nat) (a : Str) : Spec.Verdict := if a = [] then .endOfLine else .character (n - a.length)

theorem failV_nil (n : Nat) : failV n [] = .endOfLine := rfl
theorem failV_cons (n : Nat) (c : Char) (r : Str) : failV n (c :: r) = .character (n - (r.length + 1)) := by
  simp [failV]

/-- a stuck automaton at the head of the remaining input -/
theorem runFrom_stuck {k : Cfg} {i : Nat} {c : Char} {r : Str} (h : step k c = none) :
    runFrom k i (c :: r) = failV (i + (c :: r).length) (c :: r) := by
  simp only [runFrom, h, failV_cons, List.length_cons]
  congr 1; omega

theorem runFrom_nil_nonacc {k : Cfg} {i : Nat} (h : accepting k = false) : runFrom k i [] = failV i [] := by
  simp [runFrom, h, failV]

theorem runFrom_cons {k k' : Cfg} {i : Nat} {c : Char} {r : Str} (h : step k c = some k') :
    runFrom k i (c :: r) = runFrom k' (i + 1) r := by
  simp only [runFrom, h]

/-! ### the symbol tables of the reader and of the grammar agree -/

theorem lookup1_isSome (c : Char) : ∀ (t : List (Char × BracketSymbol)), (lookup1 c t).isSome = (t.map (·.1)).contains c
  | [] => rfl
  | (c', x) :: t => by
    simp only [lookup1, List.map_cons, List.contains_cons]
    by_cases h : c = c'
    · subst h; simp
    · have : (c == c') = false := by simpa using h
      simp only [h, if_false, this, Bool.false_or]
      exact lookup1_isSome c t

theorem lookup2_isSome (c d : Char) : ∀ (t : List (Char × Char × BracketSymbol)),
    (lookup2 c d t).isSome = (t.map (fun e => [e.1, e.2.1])).contains [c, d]
  | [] => rfl
  | (c', d', x) :: t => by
    simp only [lookup2, List.map_cons, List.contains_cons]
    by_cases h : c = c' ∧ d = d'
    · obtain ⟨rfl, rfl⟩ := h; simp
    · have : ([c, d] == [c', d']) = false := by
        simp only [beq_eq_false_iff_ne, ne_eq, List.cons.injEq, and_true]
        exact h
      simp only [h, if_false, this, Bool.false_or]
      exact lookup2_isSome c d t

theorem contains_congr {α} [BEq α] [LawfulBEq α] {l1 l2 : List α} (h1 : ∀ x ∈ l1, x ∈ l2) (h2 : ∀ x ∈ l2, x ∈ l1) (a : α) :
    l1.contains a = l2.contains a := by
  apply Bool.eq_iff_iff.mpr
  simp only [List.contains_iff_mem]
  exact ⟨h1 a, h2 a⟩

theorem symTwo_eq (c d : Char) : (lookup2 c d symTwo).isSome = twoOK c d := by
  rw [lookup2_isSome]
  unfold twoOK
  have h1 : ∀ x ∈ symTwo.map (fun e => [e.1, e.2.1]), x ∈ bracketSymbols := by
    have : (symTwo.map (fun e => [e.1, e.2.1])).all (fun x => bracketSymbols.contains x) = true := by decide +kernel
    intro x hx; simpa using List.all_eq_true.mp this x hx
  by_cases hm : [c, d] ∈ symTwo.map (fun e => [e.1, e.2.1])
  · have h2 := h1 _ hm
    simp [List.contains_iff_mem, hm, h2]
  · have : [c, d] ∉ bracketSymbols := by
      intro hb
      have hall : bracketSymbols.all (fun x => x.length != 2 || (symTwo.map (fun e => [e.1, e.2.1])).contains x) = true := by decide +kernel
      have := List.all_eq_true.mp hall _ hb
      simp at this
      exact hm (by simpa [List.contains_iff_mem] using this)
    simp [List.contains_iff_mem, hm, this]

theorem symOne_eq (c : Char) : (lookup1 c symOne).isSome = (c == '*' || oneOK c) := by
  rw [lookup1_isSome]
  unfold oneOK
  by_cases hm : c ∈ symOne.map (·.1)
  · have hall : (symOne.map (·.1)).all (fun x => x == '*' || bracketSymbols.contains [x]) = true := by decide +kernel
    have := List.all_eq_true.mp hall c hm
    have hc : (symOne.map (·.1)).contains c = true := by simpa [List.contains_iff_mem] using hm
    rw [hc]; exact this.symm
  · have h1 : c ≠ '*' := by
      intro e; subst e; exact hm (by decide +kernel)
    have h2 : [c] ∉ bracketSymbols := by
      intro hb
      have hall : bracketSymbols.all (fun x => x.length != 1 || (match x with | [y] => (symOne.map (·.1)).contains y | _ => true)) = true := by decide +kernel
      have := List.all_eq_true.mp hall _ hb
      simp at this
      exact hm (by simpa [List.contains_iff_mem] using this)
    simp [List.contains_iff_mem, hm, h1, h2]

theorem symFirst_eq (c : Char) : symFirst.contains c = (c == '*' || firstOK c) := by
  unfold firstOK
  by_cases hm : c ∈ symFirst
  · have hall : symFirst.all (fun x => x == '*' || bracketSymbols.any (fun s => s.head? == some x)) = true := by decide +kernel
    have := List.all_eq_true.mp hall c hm
    have hc : symFirst.contains c = true := by simpa [List.contains_iff_mem] using hm
    rw [hc]; exact this.symm
  · have h1 : c ≠ '*' := by
      intro e; subst e; exact hm (by decide +kernel)
    have h2 : bracketSymbols.any (fun s => s.head? == some c) = false := by
      rw [List.any_eq_false]
      intro s hs hc
      have hall : bracketSymbols.all (fun x => match x.head? with | some y => symFirst.contains y | none => true) = true := by decide +kernel
      have := List.all_eq_true.mp hall _ hs
      simp only [beq_iff_eq] at hc
      rw [hc] at this
      exact hm (by simpa [List.contains_iff_mem] using this)
    simp [List.contains_iff_mem, hm, h1, h2]

end Purr

namespace Purr
open Purr.Spec

/-! ### pending states behave like the state after the token when the next character does not extend it -/

theorem norm_orgB (d i : Nat) (r : Str) (h : r.head? ≠ some 'r') : runFrom ⟨.orgB, d⟩ i r = runFrom ⟨.body, d⟩ i r := by
  cases r with
  | nil => rfl
  | cons c r' =>
    have hc : (c == 'r') = false := by simpa using h
    simp only [runFrom, step, hc, Bool.false_eq_true, if_false]

theorem norm_orgC (d i : Nat) (r : Str) (h : r.head? ≠ some 'l') : runFrom ⟨.orgC, d⟩ i r = runFrom ⟨.body, d⟩ i r := by
  cases r with
  | nil => rfl
  | cons c r' =>
    have hc : (c == 'l') = false := by simpa using h
    simp only [runFrom, step, hc, Bool.false_eq_true, if_false]

/-- what a result of reading an atom at `s` means for the automaton started with `atomStart` on its first character -/
def AtomSpec (s : Str) (d i : Nat) : Res AtomKind → Prop
  | .ok _ rest => ∃ c r k1, s = c :: r ∧ atomStart d c = some k1 ∧ rest.length ≤ r.length ∧
      runFrom k1 (i + 1) r = runFrom ⟨.body, d⟩ (i + 1 + (r.length - rest.length)) rest
  | .fail a => ∃ c r k1, s = c :: r ∧ atomStart d c = some k1 ∧ a.length ≤ r.length ∧
      runFrom k1 (i + 1) r = failV (i + 1 + r.length) a
  | .absent => s = [] ∨ ∃ c r, s = c :: r ∧ (c = '[' ∨ c = '*' ∨ atomStart d c = none)
  | .panic _ => False

theorem organic_one (c : Char) (r : Str) (d i : Nat) (k : AtomKind) (h : atomStart d c = some ⟨.body, d⟩) :
    AtomSpec (c :: r) d i (.ok k r) :=
  ⟨c, r, ⟨.body, d⟩, rfl, h, Nat.le_refl _, by simp⟩

/-- `read_organic` against the automaton's atom start -/
theorem organic_spec (s : Str) (d i : Nat) : AtomSpec s d i (readOrganic s) := by
  unfold readOrganic
  split
  · exact organic_one _ _ d i _ (by simp [atomStart])
  · exact organic_one _ _ d i _ (by simp [atomStart])
  · exact organic_one _ _ d i _ (by simp [atomStart])
  · exact organic_one _ _ d i _ (by simp [atomStart])
  · exact organic_one _ _ d i _ (by simp [atomStart])
  · exact organic_one _ _ d i _ (by simp [atomStart])
  · -- `A`: needs `t`
    rename_i r0
    split
    · rename_i r'
      refine ⟨'A', 't' :: r', ⟨.orgA, d⟩, rfl, by simp [atomStart], by simp, ?_⟩
      simp only [runFrom, step, beq_self_eq_true, if_true, List.length_cons]
      congr 1; omega
    · rename_i hne
      refine ⟨'A', r0, ⟨.orgA, d⟩, rfl, by simp [atomStart], Nat.le_refl _, ?_⟩
      cases r0 with
      | nil => simp [runFrom, accepting, failV]
      | cons x r' =>
        have hx : (x == 't') = false := by
          simp only [beq_eq_false_iff_ne]; intro e; subst e; exact hne r' rfl
        rw [runFrom_stuck (by simp [step, hx])]
  · -- `B`: maybe `r`
    rename_i r0
    split
    · rename_i r'
      refine ⟨'B', 'r' :: r', ⟨.orgB, d⟩, rfl, by simp [atomStart], by simp, ?_⟩
      simp only [runFrom, step, beq_self_eq_true, if_true, List.length_cons]
      congr 1; omega
    · rename_i hne
      refine ⟨'B', r0, ⟨.orgB, d⟩, rfl, by simp [atomStart], Nat.le_refl _, ?_⟩
      rw [norm_orgB d (i + 1) r0 (by
        intro h'; cases r0 with
        | nil => cases h'
        | cons x r' => simp only [List.head?_cons, Option.some.injEq] at h'; subst h'; exact hne r' rfl)]
      simp
  · -- `C`: maybe `l`
    rename_i r0
    split
    · rename_i r'
      refine ⟨'C', 'l' :: r', ⟨.orgC, d⟩, rfl, by simp [atomStart], by simp, ?_⟩
      simp only [runFrom, step, beq_self_eq_true, if_true, List.length_cons]
      congr 1; omega
    · rename_i hne
      refine ⟨'C', r0, ⟨.orgC, d⟩, rfl, by simp [atomStart], Nat.le_refl _, ?_⟩
      rw [norm_orgC d (i + 1) r0 (by
        intro h'; cases r0 with
        | nil => cases h'
        | cons x r' => simp only [List.head?_cons, Option.some.injEq] at h'; subst h'; exact hne r' rfl)]
      simp
  · exact organic_one _ _ d i _ (by simp [atomStart])
  · exact organic_one _ _ d i _ (by simp [atomStart])
  · exact organic_one _ _ d i _ (by simp [atomStart])
  · exact organic_one _ _ d i _ (by simp [atomStart])
  · exact organic_one _ _ d i _ (by simp [atomStart])
  · exact organic_one _ _ d i _ (by simp [atomStart])
  · -- `T`: needs `s`
    rename_i r0
    split
    · rename_i r'
      refine ⟨'T', 's' :: r', ⟨.orgT, d⟩, rfl, by simp [atomStart], by simp, ?_⟩
      simp only [runFrom, step, beq_self_eq_true, if_true, List.length_cons]
      congr 1; omega
    · rename_i hne
      refine ⟨'T', r0, ⟨.orgT, d⟩, rfl, by simp [atomStart], Nat.le_refl _, ?_⟩
      cases r0 with
      | nil => simp [runFrom, accepting, failV]
      | cons x r' =>
        have hx : (x == 's') = false := by
          simp only [beq_eq_false_iff_ne]; intro e; subst e; exact hne r' rfl
        rw [runFrom_stuck (by simp [step, hx])]
  · -- anything else
    rename_i h1 h2 h3 h4 h5 h6 h7 h8 h9 h10 h11 h12 h13 h14 h15 h16
    cases s with
    | nil => exact Or.inl rfl
    | cons c r =>
      right
      refine ⟨c, r, rfl, ?_⟩
      by_cases hb : c = '['
      · exact Or.inl hb
      · by_cases hs : c = '*'
        · exact Or.inr (Or.inl hs)
        · right; right
          unfold atomStart
          have e : ∀ x : Char, (∀ r', c :: r = x :: r' → False) → (c == x) = false := by
            intro x hx; simp only [beq_eq_false_iff_ne]; intro e; subst e; exact hx r rfl
          simp [e _ h1, e _ h2, e _ h3, e _ h4, e _ h5, e _ h6, e _ h7, e _ h8, e _ h9, e _ h10, e _ h11, e _ h12, e _ h13,
            e _ h14, e _ h15, e _ h16, hb, hs]

end Purr

namespace Purr
open Purr.Spec

theorem isDigit_eq (c : Char) : isDigit c = isDig c := by
  unfold isDigit isDig
  apply Bool.eq_iff_iff.mpr
  simp only [Bool.and_eq_true, decide_eq_true_eq]
  constructor
  · rintro ⟨h1, h2⟩
    exact ⟨by show ('0' : Char).val ≤ c.val; rw [UInt32.le_iff_toNat_le]; exact h1,
           by show c.val ≤ ('9' : Char).val; rw [UInt32.le_iff_toNat_le]; exact h2⟩
  · rintro ⟨h1, h2⟩
    have h1' : ('0' : Char).val ≤ c.val := h1
    have h2' : c.val ≤ ('9' : Char).val := h2
    rw [UInt32.le_iff_toNat_le] at h1' h2'
    exact ⟨h1', h2'⟩

/-- the automaton state after `k` isotope digits -/
def isoState : Nat → Q
  | 0 => .brOpen | 1 => .iso1 | 2 => .iso2 | _ => .iso3

theorem step_iso_digit (k : Nat) (hk : k < 3) (d : Nat) (c : Char) (hc : isDig c = true) :
    step ⟨isoState k, d⟩ c = some ⟨isoState (k + 1), d⟩ := by
  match k, hk with
  | 0, _ => simp [step, isoState, hc]
  | 1, _ => simp [step, isoState, hc]
  | 2, _ => simp [step, isoState, hc]

theorem step_iso_other (k : Nat) (d : Nat) (c : Char) (hc : isDig c = false ∨ 3 ≤ k) :
    step ⟨isoState k, d⟩ c = symStart d c := by
  match k with
  | 0 => rcases hc with hc | hc; simp [step, isoState, hc]; omega
  | 1 => rcases hc with hc | hc; simp [step, isoState, hc]; omega
  | 2 => rcases hc with hc | hc; simp [step, isoState, hc]; omega
  | k + 3 => simp [step, isoState]

/-- up to `m` further isotope digits -/
theorem takeDigits_run (d : Nat) : ∀ (m k acc i : Nat) (s : Str), k + m = 3 →
    ∃ k', k ≤ k' ∧ k' ≤ 3 ∧ (takeDigits m acc s).2.length ≤ s.length ∧
      runFrom ⟨isoState k, d⟩ i s = runFrom ⟨isoState k', d⟩ (i + (s.length - (takeDigits m acc s).2.length)) (takeDigits m acc s).2 ∧
      (k' = 3 ∨ ∀ c, (takeDigits m acc s).2.head? = some c → isDig c = false)
  | 0, k, acc, i, s, h => ⟨k, Nat.le_refl _, by omega, by simp [takeDigits], by simp [takeDigits], Or.inl (by omega)⟩
  | m + 1, k, acc, i, [], h => ⟨k, Nat.le_refl _, by omega, by simp [takeDigits], by simp [takeDigits], Or.inr (by simp [takeDigits])⟩
  | m + 1, k, acc, i, c :: r, h => by
    simp only [takeDigits]
    by_cases hc : isDigit c = true
    · simp only [hc, if_true]
      have hc' : isDig c = true := by rw [← isDigit_eq]; exact hc
      obtain ⟨k', h1, h2, h3, h4, h5⟩ := takeDigits_run d m (k + 1) (10 * acc + digitVal c) (i + 1) r (by omega)
      refine ⟨k', by omega, h2, by simp only [List.length_cons]; omega, ?_, h5⟩
      rw [runFrom_cons (step_iso_digit k (by omega) d c hc'), h4]
      simp only [List.length_cons]
      congr 1; omega
    · have hc0 : isDigit c = false := by simpa using hc
      simp only [hc0, Bool.false_eq_true, if_false]
      refine ⟨k, Nat.le_refl _, by omega, Nat.le_refl _, by simp, Or.inr ?_⟩
      intro c' hc'
      simp only [List.head?_cons, Option.some.injEq] at hc'
      subst hc'; rw [← isDigit_eq]; exact hc0

/-- `read_isotope`: the automaton is in the state for the digits read, and the next character is not a further digit -/
theorem isotope_run (d i : Nat) (s : Str) :
    ∃ k', k' ≤ 3 ∧ (readIsotope s).2.length ≤ s.length ∧
      runFrom ⟨.brOpen, d⟩ i s = runFrom ⟨isoState k', d⟩ (i + (s.length - (readIsotope s).2.length)) (readIsotope s).2 ∧
      (k' = 3 ∨ ∀ c, (readIsotope s).2.head? = some c → isDig c = false) := by
  cases s with
  | nil => exact ⟨0, by omega, by simp [readIsotope], by simp [readIsotope, isoState], Or.inr (by simp [readIsotope])⟩
  | cons c r =>
    simp only [readIsotope]
    by_cases hc : isDigit c = true
    · simp only [hc, if_true]
      have hc' : isDig c = true := by rw [← isDigit_eq]; exact hc
      obtain ⟨k', h1, h2, h3, h4, h5⟩ := takeDigits_run d 2 1 (digitVal c) (i + 1) r rfl
      refine ⟨k', h2, by simp only [List.length_cons]; omega, ?_, h5⟩
      have : step ⟨.brOpen, d⟩ c = some ⟨isoState 1, d⟩ := step_iso_digit 0 (by omega) d c hc'
      rw [runFrom_cons this, h4]
      simp only [List.length_cons]
      congr 1; omega
    · have hc0 : isDigit c = false := by simpa using hc
      simp only [hc0, Bool.false_eq_true, if_false]
      refine ⟨0, by omega, Nat.le_refl _, by simp [isoState], Or.inr ?_⟩
      intro c' hc'
      simp only [List.head?_cons, Option.some.injEq] at hc'
      subst hc'; rw [← isDigit_eq]; exact hc0

end Purr

namespace Purr
open Purr.Spec

theorem norm_sym (c1 : Char) (d i : Nat) (r : Str) (h1 : oneOK c1 = true) (h2 : ∀ c, r.head? = some c → twoOK c1 c = false) :
    runFrom ⟨.sym c1, d⟩ i r = runFrom ⟨.afterSym, d⟩ i r := by
  cases r with
  | nil => rfl
  | cons c r' =>
    have := h2 c rfl
    simp only [runFrom, step, this, Bool.false_eq_true, if_false, h1, if_true]

theorem star_not_first : firstOK '*' = false := by decide +kernel
theorem star_two (d : Char) : twoOK '*' d = false := by
  unfold twoOK
  have hall : bracketSymbols.all (fun x => x.head? != some '*') = true := by decide +kernel
  cases h : bracketSymbols.contains ['*', d] with
  | false => rfl
  | true =>
    rw [List.contains_iff_mem] at h
    have := List.all_eq_true.mp hall _ h
    simp at this

def SymSpec (k : Cfg) (d i : Nat) (s : Str) : Res BracketSymbol → Prop
  | .ok _ rest => rest.length ≤ s.length ∧ runFrom k i s = runFrom ⟨.afterSym, d⟩ (i + (s.length - rest.length)) rest
  | .fail a => a.length ≤ s.length ∧ runFrom k i s = failV (i + s.length) a
  | _ => False

theorem symbol_spec (k : Cfg) (d i : Nat) (s : Str) (hacc : accepting k = false)
    (hstep : ∀ c r, s = c :: r → step k c = symStart d c) : SymSpec k d i s (readSymbol s) := by
  cases s with
  | nil => exact ⟨Nat.le_refl _, runFrom_nil_nonacc hacc⟩
  | cons c r =>
    have hst := hstep c r rfl
    simp only [readSymbol]
    by_cases hf : symFirst.contains c = true
    · simp only [hf, if_true]
      rw [symFirst_eq] at hf
      -- the configuration after the first character
      by_cases hstar : c = '*'
      · subst hstar
        have hs1 : step k '*' = some ⟨.afterSym, d⟩ := by rw [hst]; simp [symStart]
        have hl1 : lookup1 '*' symOne = some .star := by decide +kernel
        cases r with
        | nil =>
          simp only [hl1]
          exact ⟨by simp, by rw [runFrom_cons hs1]; simp⟩
        | cons e r' =>
          have hl2 : lookup2 '*' e symTwo = none := by
            have := symTwo_eq '*' e
            rw [star_two] at this
            cases h : lookup2 '*' e symTwo with
            | none => rfl
            | some x => rw [h] at this; cases this
          simp only [hl2, hl1]
          exact ⟨by simp, by rw [runFrom_cons hs1]; simp⟩
      · have hne : (c == '*') = false := by simpa using hstar
        have hfo : firstOK c = true := by simpa [hne] using hf
        have hs1 : step k c = some ⟨.sym c, d⟩ := by rw [hst]; simp [symStart, hne, hfo]
        have hone : (lookup1 c symOne).isSome = oneOK c := by rw [symOne_eq, hne]; rfl
        cases r with
        | nil =>
          cases hl1 : lookup1 c symOne with
          | some x =>
            simp only
            refine ⟨by simp, ?_⟩
            rw [runFrom_cons hs1]
            simp [runFrom, accepting]
          | none =>
            simp only
            refine ⟨by simp, ?_⟩
            rw [runFrom_cons hs1]
            simp [runFrom, accepting, failV]
        | cons e r' =>
          have htwo := symTwo_eq c e
          cases hl2 : lookup2 c e symTwo with
          | some x =>
            rw [hl2] at htwo
            simp only [hl2]
            refine ⟨by simp only [List.length_cons]; omega, ?_⟩
            have : step ⟨.sym c, d⟩ e = some ⟨.afterSym, d⟩ := by simp [step, ← htwo]
            rw [runFrom_cons hs1, runFrom_cons this]
            simp only [List.length_cons]
            congr 1; omega
          | none =>
            rw [hl2] at htwo
            have htwo' : twoOK c e = false := by simpa using htwo.symm
            cases hl1 : lookup1 c symOne with
            | some x =>
              rw [hl1] at hone
              have hone' : oneOK c = true := by simpa using hone.symm
              simp only [hl2, hl1]
              refine ⟨by simp, ?_⟩
              rw [runFrom_cons hs1, norm_sym c d (i + 1) (e :: r') hone' (by intro c' hc'; simp at hc'; subst hc'; exact htwo')]
              simp
            | none =>
              rw [hl1] at hone
              have hone' : oneOK c = false := by simpa using hone.symm
              simp only [hl2, hl1]
              refine ⟨by simp, ?_⟩
              rw [runFrom_cons hs1, runFrom_stuck (by simp [step, htwo', hone'])]
              simp only [List.length_cons]
              congr 1; omega
    · have hf0 : symFirst.contains c = false := by simpa using hf
      simp only [hf0, Bool.false_eq_true, if_false]
      refine ⟨Nat.le_refl _, ?_⟩
      rw [symFirst_eq] at hf0
      have hne : (c == '*') = false := by
        cases h : (c == '*') with
        | false => rfl
        | true => rw [h] at hf0; simp at hf0
      have hfo : firstOK c = false := by rw [hne] at hf0; simpa using hf0
      exact runFrom_stuck (by rw [hst]; simp [symStart, hne, hfo])

end Purr

namespace Purr
open Purr.Spec

theorem digit_cases (c : Char) (h : isDigit c = true) :
    c = '0' ∨ c = '1' ∨ c = '2' ∨ c = '3' ∨ c = '4' ∨ c = '5' ∨ c = '6' ∨ c = '7' ∨ c = '8' ∨ c = '9' := by
  unfold isDigit at h
  simp only [Bool.and_eq_true, decide_eq_true_eq] at h
  have hc : c = Char.ofNat c.toNat := (Char.ofNat_toNat c).symm
  have : c.toNat = 48 ∨ c.toNat = 49 ∨ c.toNat = 50 ∨ c.toNat = 51 ∨ c.toNat = 52 ∨ c.toNat = 53 ∨ c.toNat = 54 ∨
      c.toNat = 55 ∨ c.toNat = 56 ∨ c.toNat = 57 := by omega
  rcases this with h' | h' | h' | h' | h' | h' | h' | h' | h' | h' <;> (rw [h'] at hc; subst hc; decide)

theorem digitVal_le (c : Char) (h : isDigit c = true) : digitVal c ≤ 9 := by
  unfold isDigit at h; unfold digitVal
  simp only [Bool.and_eq_true, decide_eq_true_eq] at h; omega

theorem digitVal_zero (c : Char) (h : isDigit c = true) : digitVal c = 0 ↔ c = '0' := by
  rcases digit_cases c h with rfl | rfl | rfl | rfl | rfl | rfl | rfl | rfl | rfl | rfl <;> decide

theorem digitOf_eq (c : Char) : digitOf c = digitVal c := rfl

theorem all_len : Configuration.all.length = 57 := by decide

theorem th_some (n : Nat) : (Configuration.th? n).isSome = decide (1 ≤ n ∧ n ≤ 2) := by
  unfold Configuration.th?
  by_cases h : 1 ≤ n ∧ n ≤ 2
  · simp only [h, and_self, if_true, decide_true]
    rw [List.getElem?_eq_getElem (by rw [all_len]; omega)]; rfl
  · simp [h]

theorem al_some (n : Nat) : (Configuration.al? n).isSome = decide (1 ≤ n ∧ n ≤ 2) := by
  unfold Configuration.al?
  by_cases h : 1 ≤ n ∧ n ≤ 2
  · simp only [h, and_self, if_true, decide_true]
    rw [List.getElem?_eq_getElem (by rw [all_len]; omega)]; rfl
  · simp [h]

theorem sp_some (n : Nat) : (Configuration.sp? n).isSome = decide (1 ≤ n ∧ n ≤ 3) := by
  unfold Configuration.sp?
  by_cases h : 1 ≤ n ∧ n ≤ 3
  · simp only [h, and_self, if_true, decide_true]
    rw [List.getElem?_eq_getElem (by rw [all_len]; omega)]; rfl
  · simp [h]

theorem tb_some (n : Nat) : (Configuration.tb? n).isSome = decide (1 ≤ n ∧ n ≤ 20) := by
  unfold Configuration.tb?
  by_cases h : 1 ≤ n ∧ n ≤ 20
  · simp only [h, and_self, if_true, decide_true]
    rw [List.getElem?_eq_getElem (by rw [all_len]; omega)]; rfl
  · simp [h]

theorem oh_some (n : Nat) : (Configuration.oh? n).isSome = decide (1 ≤ n ∧ n ≤ 30) := by
  unfold Configuration.oh?
  by_cases h : 1 ≤ n ∧ n ≤ 30
  · simp only [h, and_self, if_true, decide_true]
    rw [List.getElem?_eq_getElem (by rw [all_len]; omega)]; rfl
  · simp [h]

/-- the tail of a configuration (after `@TH`, `@AL`, `@SP`, `@TB`, `@OH`), from automaton state `q` -/
def CfgTailSpec (q : Q) (d i : Nat) (s : Str) : Res (Option Configuration) → Prop
  | .ok _ rest => rest.length ≤ s.length ∧ runFrom ⟨q, d⟩ i s = runFrom ⟨.afterCfg, d⟩ (i + (s.length - rest.length)) rest
  | .fail a => a.length ≤ s.length ∧ runFrom ⟨q, d⟩ i s = failV (i + s.length) a
  | _ => False

/-- one digit `1‥hi` -/
theorem cfgDigit_spec (f : Nat → Option Configuration) (q : Q) (d i : Nat) (s : Str) (hq : accepting ⟨q, d⟩ = false)
    (hstep : ∀ c, step ⟨q, d⟩ c = if isDigit c && (f (digitVal c)).isSome then some ⟨.afterCfg, d⟩ else none) :
    CfgTailSpec q d i s (readCfgDigit f s) := by
  cases s with
  | nil => exact ⟨Nat.le_refl _, runFrom_nil_nonacc hq⟩
  | cons c r =>
    simp only [readCfgDigit]
    by_cases hc : isDigit c = true
    · simp only [hc, if_true]
      cases hf : f (digitVal c) with
      | some x =>
        simp only [cfgRes]
        refine ⟨by simp, ?_⟩
        rw [runFrom_cons (by rw [hstep, hc, hf]; rfl)]
        simp
      | none =>
        simp only [cfgRes]
        exact ⟨Nat.le_refl _, runFrom_stuck (by rw [hstep, hc, hf]; rfl)⟩
    · have hc0 : isDigit c = false := by simpa using hc
      simp only [hc0, Bool.false_eq_true, if_false]
      exact ⟨Nat.le_refl _, runFrom_stuck (by rw [hstep, hc0]; rfl)⟩

theorem step_atTH (d : Nat) (c : Char) :
    step ⟨.atTH, d⟩ c = if isDigit c && (Configuration.th? (digitVal c)).isSome then some ⟨.afterCfg, d⟩ else none := by
  rw [th_some]
  by_cases hc : isDigit c = true
  · rcases digit_cases c hc with rfl | rfl | rfl | rfl | rfl | rfl | rfl | rfl | rfl | rfl <;> rfl
  · have hc0 : isDigit c = false := by simpa using hc
    have h1 : (c == '1') = false := by simp only [beq_eq_false_iff_ne]; intro e; subst e; exact hc (by decide)
    have h2 : (c == '2') = false := by simp only [beq_eq_false_iff_ne]; intro e; subst e; exact hc (by decide)
    simp [step, hc0, h1, h2]

theorem step_atAL (d : Nat) (c : Char) :
    step ⟨.atAL, d⟩ c = if isDigit c && (Configuration.al? (digitVal c)).isSome then some ⟨.afterCfg, d⟩ else none := by
  rw [al_some]
  by_cases hc : isDigit c = true
  · rcases digit_cases c hc with rfl | rfl | rfl | rfl | rfl | rfl | rfl | rfl | rfl | rfl <;> rfl
  · have hc0 : isDigit c = false := by simpa using hc
    have h1 : (c == '1') = false := by simp only [beq_eq_false_iff_ne]; intro e; subst e; exact hc (by decide)
    have h2 : (c == '2') = false := by simp only [beq_eq_false_iff_ne]; intro e; subst e; exact hc (by decide)
    simp [step, hc0, h1, h2]

theorem step_atSP (d : Nat) (c : Char) :
    step ⟨.atSP, d⟩ c = if isDigit c && (Configuration.sp? (digitVal c)).isSome then some ⟨.afterCfg, d⟩ else none := by
  rw [sp_some]
  by_cases hc : isDigit c = true
  · rcases digit_cases c hc with rfl | rfl | rfl | rfl | rfl | rfl | rfl | rfl | rfl | rfl <;> rfl
  · have hc0 : isDigit c = false := by simpa using hc
    have h1 : (c == '1') = false := by simp only [beq_eq_false_iff_ne]; intro e; subst e; exact hc (by decide)
    have h2 : (c == '2') = false := by simp only [beq_eq_false_iff_ne]; intro e; subst e; exact hc (by decide)
    have h3 : (c == '3') = false := by simp only [beq_eq_false_iff_ne]; intro e; subst e; exact hc (by decide)
    simp [step, hc0, h1, h2, h3]

end Purr

namespace Purr
open Purr.Spec

/-- one or two digits: `1‥10·top`, the second digit allowed after `1‥tens` (any digit) and after `top` (only `0`) -/
theorem cfgTwoDigit_spec (f : Nat → Option Configuration) (tens top : Nat) (q : Q) (qd : Nat → Q) (d i : Nat) (s : Str)
    (htt : tens < top) (hq : accepting ⟨q, d⟩ = false) (hqd : ∀ n, accepting ⟨qd n, d⟩ = false)
    (h1 : ∀ c, step ⟨q, d⟩ c = if isDigit c && decide (digitVal c ≠ 0) then some ⟨qd (digitVal c), d⟩ else none)
    (h2 : ∀ n e, 1 ≤ n → step ⟨qd n, d⟩ e =
      if (decide (n ≤ tens) && isDigit e) || (decide (n = top) && e == '0') then some ⟨.afterCfg, d⟩ else afterCfgStep d e)
    (hf : ∀ n, 1 ≤ n → n ≤ 10 * top → ∃ x, f n = some x) :
    CfgTailSpec q d i s (readCfgTwoDigit f tens top s) := by
  have hafter : ∀ e, step ⟨.afterCfg, d⟩ e = afterCfgStep d e := fun e => rfl
  cases s with
  | nil => exact ⟨Nat.le_refl _, runFrom_nil_nonacc hq⟩
  | cons c r =>
    simp only [readCfgTwoDigit]
    by_cases hc : (isDigit c && decide (digitVal c ≠ 0)) = true
    · have hcd : isDigit c = true := by
        simp only [Bool.and_eq_true] at hc; exact hc.1
      have hcz : digitVal c ≠ 0 := by
        simp only [Bool.and_eq_true, decide_eq_true_eq] at hc; exact hc.2
      have hc9 := digitVal_le c hcd
      have hs1 : step ⟨q, d⟩ c = some ⟨qd (digitVal c), d⟩ := by rw [h1, hc]; rfl
      simp only [hc, if_true]
      have htop1 : 1 ≤ top := by omega
      by_cases hle : digitVal c ≤ tens
      · simp only [hle, if_true]
        cases r with
        | nil =>
          obtain ⟨x, hx⟩ := hf (digitVal c) (by omega) (by omega)
          simp only [hx, cfgRes]
          refine ⟨by simp, ?_⟩
          rw [runFrom_cons hs1]
          simp only [List.length_cons, List.length_nil]
          rw [runFrom_nil_nonacc (hqd _), runFrom_nil_nonacc (by simp [accepting])]
        | cons e r' =>
          by_cases he : isDigit e = true
          · have he9 := digitVal_le e he
            obtain ⟨x, hx⟩ := hf (10 * digitVal c + digitVal e) (by omega) (by omega)
            simp only [he, if_true, hx, cfgRes]
            refine ⟨by simp only [List.length_cons]; omega, ?_⟩
            have hs2 : step ⟨qd (digitVal c), d⟩ e = some ⟨.afterCfg, d⟩ := by
              rw [h2 _ _ (by omega)]; simp [hle, he]
            rw [runFrom_cons hs1, runFrom_cons hs2]
            simp only [List.length_cons]
            congr 1; omega
          · have he0 : isDigit e = false := by simpa using he
            obtain ⟨x, hx⟩ := hf (digitVal c) (by omega) (by omega)
            simp only [he0, Bool.false_eq_true, if_false, hx, cfgRes]
            refine ⟨by simp, ?_⟩
            have hs2 : step ⟨qd (digitVal c), d⟩ e = step ⟨.afterCfg, d⟩ e := by
              rw [h2 _ _ (by omega), hafter]
              have : ¬ digitVal c = top := by omega
              simp [he0, this]
            rw [runFrom_cons hs1]
            simp only [runFrom, hs2, List.length_cons]
            have : i + (r'.length + 1 + 1 - (r'.length + 1)) = i + 1 := by omega
            rw [this]
      · simp only [hle, if_false]
        by_cases htp : digitVal c = top
        · simp only [htp, if_true]
          split
          · rename_i r'
            obtain ⟨x, hx⟩ := hf (10 * top) (by omega) (by omega)
            simp only [hx, cfgRes]
            refine ⟨by simp only [List.length_cons]; omega, ?_⟩
            have hs2 : step ⟨qd (digitVal c), d⟩ '0' = some ⟨.afterCfg, d⟩ := by
              rw [h2 _ _ (by omega)]; simp [htp]
            rw [runFrom_cons hs1, runFrom_cons hs2]
            simp only [List.length_cons]
            congr 1; omega
          · rename_i hno
            obtain ⟨x, hx⟩ := hf top (by omega) (by omega)
            simp only [hx, cfgRes]
            refine ⟨by simp, ?_⟩
            rw [runFrom_cons hs1]
            cases r with
            | nil =>
              simp only [List.length_cons, List.length_nil]
              rw [runFrom_nil_nonacc (hqd _), runFrom_nil_nonacc (by simp [accepting])]
            | cons e r' =>
              have he0 : (e == '0') = false := by
                simp only [beq_eq_false_iff_ne]; intro e'; subst e'; exact hno r' rfl
              have hs2 : step ⟨qd (digitVal c), d⟩ e = step ⟨.afterCfg, d⟩ e := by
                rw [h2 _ _ (by omega), hafter]
                have : ¬ digitVal c ≤ tens := hle
                simp [he0, this]
              simp only [runFrom, hs2, List.length_cons]
              have : i + (r'.length + 1 + 1 - (r'.length + 1)) = i + 1 := by omega
              rw [this]
        · simp only [htp, if_false]
          obtain ⟨x, hx⟩ := hf (digitVal c) (by omega) (by omega)
          simp only [hx, cfgRes]
          refine ⟨by simp, ?_⟩
          rw [runFrom_cons hs1]
          cases r with
          | nil =>
            simp only [List.length_cons, List.length_nil]
            rw [runFrom_nil_nonacc (hqd _), runFrom_nil_nonacc (by simp [accepting])]
          | cons e r' =>
            have hs2 : step ⟨qd (digitVal c), d⟩ e = step ⟨.afterCfg, d⟩ e := by
              rw [h2 _ _ (by omega), hafter]
              simp [hle, htp]
            simp only [runFrom, hs2, List.length_cons]
            have : i + (r'.length + 1 + 1 - (r'.length + 1)) = i + 1 := by omega
            rw [this]
    · have hc0 : (isDigit c && decide (digitVal c ≠ 0)) = false := by simpa using hc
      simp only [hc0, Bool.false_eq_true, if_false]
      exact ⟨Nat.le_refl _, runFrom_stuck (by rw [h1, hc0]; rfl)⟩

end Purr

namespace Purr
open Purr.Spec

theorem step_start_digit (q : Q) (qd : Nat → Q) (d : Nat) (c : Char)
    (h : step ⟨q, d⟩ c = if isDig c && c != '0' then some ⟨qd (digitOf c), d⟩ else none) :
    step ⟨q, d⟩ c = if isDigit c && decide (digitVal c ≠ 0) then some ⟨qd (digitVal c), d⟩ else none := by
  rw [h, ← isDigit_eq]
  by_cases hc : isDigit c = true
  · have : (c != '0') = decide (digitVal c ≠ 0) := by
      rcases digit_cases c hc with rfl | rfl | rfl | rfl | rfl | rfl | rfl | rfl | rfl | rfl <;> decide
    rw [this]; rfl
  · have hc0 : isDigit c = false := by simpa using hc
    simp [hc0]

theorem tb_spec (d i : Nat) (s : Str) : CfgTailSpec .atTB d i s (readCfgTwoDigit Configuration.tb? 1 2 s) := by
  apply cfgTwoDigit_spec Configuration.tb? 1 2 .atTB .atTBd d i s (by omega) (by simp [accepting]) (by intro n; simp [accepting])
  · intro c; exact step_start_digit .atTB .atTBd d c rfl
  · intro n e hn
    simp only [step, isDigit_eq]
    have h1 : (n = 1) = (n ≤ 1) := by apply propext; omega
    simp only [h1]
  · intro n h1 h2
    have := tb_some n
    cases h : Configuration.tb? n with
    | some x => exact ⟨x, rfl⟩
    | none => rw [h] at this; simp at this; omega

theorem oh_spec (d i : Nat) (s : Str) : CfgTailSpec .atOH d i s (readCfgTwoDigit Configuration.oh? 2 3 s) := by
  apply cfgTwoDigit_spec Configuration.oh? 2 3 .atOH .atOHd d i s (by omega) (by simp [accepting]) (by intro n; simp [accepting])
  · intro c; exact step_start_digit .atOH .atOHd d c rfl
  · intro n e hn
    simp only [step, isDigit_eq]
    have h1 : (decide (n = 1) || decide (n = 2)) = decide (n ≤ 2) := by
      apply Bool.eq_iff_iff.mpr; simp only [Bool.or_eq_true, decide_eq_true_eq]; omega
    rw [← h1]
  · intro n h1 h2
    have := oh_some n
    cases h : Configuration.oh? n with
    | some x => exact ⟨x, rfl⟩
    | none => rw [h] at this; simp at this; omega

end Purr

namespace Purr
open Purr.Spec

/-- a configuration (or none) read at `s`, from the automaton state after the symbol -/
def CfgSpec (d i : Nat) (s : Str) : Res (Option Configuration) → Prop
  | .ok _ rest => rest.length ≤ s.length ∧ runFrom ⟨.afterSym, d⟩ i s = runFrom ⟨.afterCfg, d⟩ (i + (s.length - rest.length)) rest
  | .fail a => a.length ≤ s.length ∧ runFrom ⟨.afterSym, d⟩ i s = failV (i + s.length) a
  | _ => False

theorem CfgTailSpec.lift {q : Q} {d i : Nat} {pre t : Str} {res : Res (Option Configuration)}
    (hrun : runFrom ⟨.afterSym, d⟩ i (pre ++ t) = runFrom ⟨q, d⟩ (i + pre.length) t)
    (h : CfgTailSpec q d (i + pre.length) t res) : CfgSpec d i (pre ++ t) res := by
  cases res with
  | ok v rest =>
    obtain ⟨h1, h2⟩ := h
    refine ⟨by simp only [List.length_append]; omega, ?_⟩
    rw [hrun, h2]
    simp only [List.length_append]
    congr 1; omega
  | fail a =>
    obtain ⟨h1, h2⟩ := h
    refine ⟨by simp only [List.length_append]; omega, ?_⟩
    rw [hrun, h2]
    simp only [List.length_append]
    congr 1; omega
  | absent => exact h
  | panic p => exact h

theorem norm_afterSym (d i : Nat) (r : Str) (h : r.head? ≠ some '@') : runFrom ⟨.afterSym, d⟩ i r = runFrom ⟨.afterCfg, d⟩ i r := by
  cases r with
  | nil => simp [runFrom, accepting]
  | cons c r' =>
    have hc : (c == '@') = false := by simpa using h
    simp only [runFrom, step, afterSymStep, hc, Bool.false_eq_true, if_false]

theorem configuration_spec (d i : Nat) (s : Str) : CfgSpec d i s (readConfiguration s) := by
  have hat : ∀ (r : Str), runFrom ⟨.afterSym, d⟩ i ('@' :: r) = runFrom ⟨.at1, d⟩ (i + 1) r := by
    intro r; simp [runFrom, step, afterSymStep]
  unfold readConfiguration
  split
  · rename_i r
    split
    · -- `@@`
      rename_i r'
      refine ⟨by simp only [List.length_cons]; omega, ?_⟩
      rw [hat]
      simp only [runFrom, step, beq_self_eq_true, if_true, List.length_cons]
      congr 1; omega
    · -- `@A`
      rename_i r'
      have hA : runFrom ⟨.afterSym, d⟩ i ('@' :: 'A' :: r') = runFrom ⟨.atA, d⟩ (i + 2) r' := by
        rw [hat]; simp [runFrom, step]
      split
      · rename_i r''
        have hL : runFrom ⟨.afterSym, d⟩ i (['@', 'A', 'L'] ++ r'') = runFrom ⟨.atAL, d⟩ (i + ['@', 'A', 'L'].length) r'' := by
          show runFrom ⟨.afterSym, d⟩ i ('@' :: 'A' :: 'L' :: r'') = _
          rw [hA]; simp [runFrom, step]
        exact CfgTailSpec.lift hL (cfgDigit_spec _ .atAL d _ r'' (by simp [accepting]) (step_atAL d))
      · rename_i hne
        refine ⟨by simp only [List.length_cons]; omega, ?_⟩
        rw [hA]
        cases r' with
        | nil => simp [runFrom, accepting, failV]
        | cons x r'' =>
          have hx : (x == 'L') = false := by
            simp only [beq_eq_false_iff_ne]; intro e; subst e; exact hne r'' rfl
          rw [runFrom_stuck (by simp [step, hx])]
          simp only [List.length_cons]; congr 1; omega
    · -- `@O`
      rename_i r'
      have hO : runFrom ⟨.afterSym, d⟩ i ('@' :: 'O' :: r') = runFrom ⟨.atO, d⟩ (i + 2) r' := by
        rw [hat]; simp [runFrom, step]
      split
      · rename_i r''
        have hH : runFrom ⟨.afterSym, d⟩ i (['@', 'O', 'H'] ++ r'') = runFrom ⟨.atOH, d⟩ (i + ['@', 'O', 'H'].length) r'' := by
          show runFrom ⟨.afterSym, d⟩ i ('@' :: 'O' :: 'H' :: r'') = _
          rw [hO]; simp [runFrom, step]
        exact CfgTailSpec.lift hH (oh_spec d _ r'')
      · rename_i hne
        refine ⟨by simp only [List.length_cons]; omega, ?_⟩
        rw [hO]
        cases r' with
        | nil => simp [runFrom, accepting, failV]
        | cons x r'' =>
          have hx : (x == 'H') = false := by
            simp only [beq_eq_false_iff_ne]; intro e; subst e; exact hne r'' rfl
          rw [runFrom_stuck (by simp [step, hx])]
          simp only [List.length_cons]; congr 1; omega
    · -- `@S`
      rename_i r'
      have hS : runFrom ⟨.afterSym, d⟩ i ('@' :: 'S' :: r') = runFrom ⟨.atS, d⟩ (i + 2) r' := by
        rw [hat]; simp [runFrom, step]
      split
      · rename_i r''
        have hP : runFrom ⟨.afterSym, d⟩ i (['@', 'S', 'P'] ++ r'') = runFrom ⟨.atSP, d⟩ (i + ['@', 'S', 'P'].length) r'' := by
          show runFrom ⟨.afterSym, d⟩ i ('@' :: 'S' :: 'P' :: r'') = _
          rw [hS]; simp [runFrom, step]
        exact CfgTailSpec.lift hP (cfgDigit_spec _ .atSP d _ r'' (by simp [accepting]) (step_atSP d))
      · rename_i hne
        refine ⟨by simp only [List.length_cons]; omega, ?_⟩
        rw [hS]
        cases r' with
        | nil => simp [runFrom, accepting, failV]
        | cons x r'' =>
          have hx : (x == 'P') = false := by
            simp only [beq_eq_false_iff_ne]; intro e; subst e; exact hne r'' rfl
          rw [runFrom_stuck (by simp [step, hx])]
          simp only [List.length_cons]; congr 1; omega
    · -- `@T`
      rename_i r'
      have hT : runFrom ⟨.afterSym, d⟩ i ('@' :: 'T' :: r') = runFrom ⟨.atT, d⟩ (i + 2) r' := by
        rw [hat]; simp [runFrom, step]
      split
      · rename_i r''
        have hB : runFrom ⟨.afterSym, d⟩ i (['@', 'T', 'B'] ++ r'') = runFrom ⟨.atTB, d⟩ (i + ['@', 'T', 'B'].length) r'' := by
          show runFrom ⟨.afterSym, d⟩ i ('@' :: 'T' :: 'B' :: r'') = _
          rw [hT]; simp [runFrom, step]
        exact CfgTailSpec.lift hB (tb_spec d _ r'')
      · rename_i r''
        have hH : runFrom ⟨.afterSym, d⟩ i (['@', 'T', 'H'] ++ r'') = runFrom ⟨.atTH, d⟩ (i + ['@', 'T', 'H'].length) r'' := by
          show runFrom ⟨.afterSym, d⟩ i ('@' :: 'T' :: 'H' :: r'') = _
          rw [hT]; simp [runFrom, step]
        exact CfgTailSpec.lift hH (cfgDigit_spec _ .atTH d _ r'' (by simp [accepting]) (step_atTH d))
      · rename_i hB hH
        refine ⟨by simp only [List.length_cons]; omega, ?_⟩
        rw [hT]
        cases r' with
        | nil => simp [runFrom, accepting, failV]
        | cons x r'' =>
          have hx1 : (x == 'H') = false := by
            simp only [beq_eq_false_iff_ne]; intro e; subst e; exact hH r'' rfl
          have hx2 : (x == 'B') = false := by
            simp only [beq_eq_false_iff_ne]; intro e; subst e; exact hB r'' rfl
          rw [runFrom_stuck (by simp [step, hx1, hx2])]
          simp only [List.length_cons]; congr 1; omega
    · -- `@` alone: TH1
      rename_i h1 h2 h3 h4 h5
      refine ⟨by simp, ?_⟩
      rw [hat]
      cases r with
      | nil => simp [runFrom, accepting]
      | cons x r' =>
        have e : ∀ y : Char, (∀ r'', x :: r' = y :: r'' → False) → (x == y) = false := by
          intro y hy; simp only [beq_eq_false_iff_ne]; intro e; subst e; exact hy r' rfl
        simp only [runFrom, step, e _ h1, e _ h2, e _ h3, e _ h4, e _ h5, Bool.false_eq_true, if_false, List.length_cons]
        have : i + (r'.length + 1 + 1 - (r'.length + 1)) = i + 1 := by omega
        rw [this]
  · -- no configuration
    rename_i hno
    refine ⟨Nat.le_refl _, ?_⟩
    rw [norm_afterSym d i s (by
      intro h'; cases s with
      | nil => cases h'
      | cons x r' => simp only [List.head?_cons, Option.some.injEq] at h'; subst h'; exact hno r' rfl)]
    simp

end Purr

namespace Purr
open Purr.Spec

/-! ### hydrogen count -/

theorem hcount_run (d i : Nat) (s : Str) :
    (readHcount s).2.length ≤ s.length ∧
    runFrom ⟨.afterCfg, d⟩ i s = runFrom ⟨.afterH, d⟩ (i + (s.length - (readHcount s).2.length)) (readHcount s).2 := by
  unfold readHcount
  split
  · rename_i r
    have hH : ∀ r : Str, runFrom ⟨.afterCfg, d⟩ i ('H' :: r) = runFrom ⟨.h0, d⟩ (i + 1) r := by
      intro r; simp [runFrom, step, afterCfgStep]
    split
    · rename_i e r'
      by_cases he : isDigit e = true
      · simp only [he, dite_true]
        refine ⟨by simp only [List.length_cons]; omega, ?_⟩
        rw [hH]
        have : step ⟨.h0, d⟩ e = some ⟨.afterH, d⟩ := by simp [step, ← isDigit_eq, he]
        rw [runFrom_cons this]
        simp only [List.length_cons]; congr 1; omega
      · have he0 : isDigit e = false := by simpa using he
        simp only [he0, Bool.false_eq_true, dite_false]
        refine ⟨by simp, ?_⟩
        rw [hH]
        have : step ⟨.h0, d⟩ e = step ⟨.afterH, d⟩ e := by simp [step, ← isDigit_eq, he0]
        simp only [runFrom, this, List.length_cons]
        have : i + (r'.length + 1 + 1 - (r'.length + 1)) = i + 1 := by omega
        rw [this]
    · refine ⟨by simp, ?_⟩
      rw [hH]; simp [runFrom, accepting]
  · rename_i hno
    refine ⟨Nat.le_refl _, ?_⟩
    simp only [Nat.sub_self, Nat.add_zero]
    cases s with
    | nil => simp [runFrom, accepting]
    | cons c r =>
      have hc : (c == 'H') = false := by
        simp only [beq_eq_false_iff_ne]; intro e; subst e; exact hno r rfl
      simp only [runFrom, step, afterCfgStep, hc, Bool.false_eq_true, if_false]

end Purr

namespace Purr
open Purr.Spec

/-! ### charge -/

theorem low_digit (e : Char) : (decide ('0' ≤ e) && decide (e ≤ '5')) = (isDigit e && decide (digitVal e ≤ 5)) := by
  by_cases he : isDigit e = true
  · rcases digit_cases e he with rfl | rfl | rfl | rfl | rfl | rfl | rfl | rfl | rfl | rfl <;> decide
  · have he0 : isDigit e = false := by simpa using he
    rw [he0, Bool.false_and]
    -- not a digit: outside '0'..'9', hence outside '0'..'5'
    cases h : (decide ('0' ≤ e) && decide (e ≤ '5')) with
    | false => rfl
    | true =>
      exfalso
      simp only [Bool.and_eq_true, decide_eq_true_eq] at h
      have : isDig e = true := by
        unfold isDig
        simp only [Bool.and_eq_true, decide_eq_true_eq]
        refine ⟨h.1, Nat.le_trans (show e.val.toNat ≤ ('5' : Char).val.toNat from UInt32.le_iff_toNat_le.mp h.2) (by decide)⟩
      rw [← isDigit_eq, he0] at this; cases this

def FifteenSpec (plus : Bool) (d i : Nat) (r : Str) : Option (Nat × Str) → Prop
  | some (_, r') => r'.length ≤ r.length ∧ runFrom ⟨.sign plus, d⟩ i r = runFrom ⟨.afterCharge, d⟩ (i + (r.length - r'.length)) r'
  | none => ∀ c r0, r = c :: r0 → c ≠ '1' ∧ (isDigit c = true → c = '0')

theorem fifteen_spec (plus : Bool) (d i : Nat) (r : Str) : FifteenSpec plus d i r (readFifteen r) := by
  have hdig_not_sign : ∀ c : Char, isDigit c = true → (c == '+') = false ∧ (c == '-') = false := by
    intro c hc
    rcases digit_cases c hc with rfl | rfl | rfl | rfl | rfl | rfl | rfl | rfl | rfl | rfl <;> decide
  cases r with
  | nil => intro c r0 h; cases h
  | cons c r0 =>
    simp only [readFifteen]
    by_cases h1 : c = '1'
    · subst h1
      simp only [if_true]
      have hs1 : step ⟨.sign plus, d⟩ '1' = some ⟨.chargeOne, d⟩ := by
        cases plus <;> simp [step]
      cases r0 with
      | nil =>
        refine ⟨by simp, ?_⟩
        rw [runFrom_cons hs1]; simp [runFrom, accepting]
      | cons e r' =>
        by_cases he : (isDigit e && decide (digitVal e ≤ 5)) = true
        · simp only [he, if_true]
          refine ⟨by simp only [List.length_cons]; omega, ?_⟩
          have hs2 : step ⟨.chargeOne, d⟩ e = some ⟨.afterCharge, d⟩ := by
            simp only [step, low_digit, he, if_true]
          rw [runFrom_cons hs1, runFrom_cons hs2]
          simp only [List.length_cons]; congr 1; omega
        · have he0 : (isDigit e && decide (digitVal e ≤ 5)) = false := by simpa using he
          simp only [he0, Bool.false_eq_true, if_false]
          refine ⟨by simp, ?_⟩
          have hs2 : step ⟨.chargeOne, d⟩ e = step ⟨.afterCharge, d⟩ e := by
            simp only [step, low_digit, he0, Bool.false_eq_true, if_false]
          rw [runFrom_cons hs1]
          simp only [runFrom, hs2, List.length_cons]
          have : i + (r'.length + 1 + 1 - (r'.length + 1)) = i + 1 := by omega
          rw [this]
    · simp only [h1, if_false]
      by_cases h2 : (isDigit c && decide (2 ≤ digitVal c)) = true
      · simp only [h2, if_true]
        refine ⟨by simp, ?_⟩
        have hcd : isDigit c = true := by simp only [Bool.and_eq_true] at h2; exact h2.1
        have hc2 : 2 ≤ digitVal c := by simp only [Bool.and_eq_true, decide_eq_true_eq] at h2; exact h2.2
        have hne0 : (c != '0') = true := by
          rcases digit_cases c hcd with rfl | rfl | rfl | rfl | rfl | rfl | rfl | rfl | rfl | rfl <;> first | decide | (exfalso; revert hc2; decide)
        have hne1 : (c == '1') = false := by simpa using h1
        obtain ⟨hp, hm⟩ := hdig_not_sign c hcd
        have hs : step ⟨.sign plus, d⟩ c = some ⟨.afterCharge, d⟩ := by
          cases plus <;> simp [step, hp, hm, hne1, ← isDigit_eq, hcd, hne0]
        rw [runFrom_cons hs]; simp
      · have h20 : (isDigit c && decide (2 ≤ digitVal c)) = false := by simpa using h2
        simp only [h20, Bool.false_eq_true, if_false]
        intro c' r0' he
        simp only [List.cons.injEq] at he
        obtain ⟨rfl, rfl⟩ := he
        refine ⟨h1, ?_⟩
        intro hcd
        rw [hcd, Bool.true_and] at h20
        simp only [decide_eq_false_iff_not, Nat.not_le] at h20
        rcases digit_cases c hcd with rfl | rfl | rfl | rfl | rfl | rfl | rfl | rfl | rfl | rfl <;> first | rfl | (exfalso; exact h1 rfl) | (exfalso; revert h20; decide)

def ChargeSpec (d i : Nat) (s : Str) : Res (Option Charge) → Prop
  | .ok _ rest => rest.length ≤ s.length ∧ runFrom ⟨.afterH, d⟩ i s = runFrom ⟨.afterCharge, d⟩ (i + (s.length - rest.length)) rest
  | _ => False

theorem mkCharge_some (v : Nat) (h1 : 1 ≤ v) (h2 : v ≤ 15) : ∃ c, mkCharge (v : Int) = some c ∧ ∃ c', mkCharge (-(v : Int)) = some c' := by
  unfold mkCharge Charge.ofInt?
  have e1 : ((v : Int) ≠ 0 ∧ -15 ≤ (v : Int) ∧ (v : Int) ≤ 15) := by omega
  have e2 : (-(v : Int) ≠ 0 ∧ -15 ≤ -(v : Int) ∧ -(v : Int) ≤ 15) := by omega
  rw [dif_pos e1, dif_pos e2]
  exact ⟨_, rfl, _, rfl⟩

theorem charge_sign_spec (plus : Bool) (sc : Char) (hsc : sc = if plus then '+' else '-') (d i : Nat) (r : Str)
    (res : Res (Option Charge))
    (hres : res = (match readFifteen r with
      | some (v, r') => (match mkCharge (if plus then (v : Int) else -(v : Int)) with | some c => .ok (some c) r' | none => .panic "read_charge.rs:expect(charge)")
      | none => match r with
        | c :: r' => if c = sc then .ok (mkCharge (if plus then 2 else -2)) r' else .ok (mkCharge (if plus then 1 else -1)) r
        | [] => .ok (mkCharge (if plus then 1 else -1)) r)) :
    ChargeSpec d i (sc :: r) res := by
  have hstart : runFrom ⟨.afterH, d⟩ i (sc :: r) = runFrom ⟨.sign plus, d⟩ (i + 1) r := by
    subst hsc; cases plus <;> simp [runFrom, step, afterHStep]
  have hf := fifteen_spec plus d (i + 1) r
  subst hres
  cases hr : readFifteen r with
  | some p =>
    obtain ⟨v, r'⟩ := p
    rw [hr] at hf
    obtain ⟨hl, hrun⟩ := hf
    obtain ⟨hv1, hv2⟩ := readFifteen_range hr
    obtain ⟨c1, hc1, c2, hc2⟩ := mkCharge_some v hv1 hv2
    simp only
    cases plus
    · simp only [Bool.false_eq_true, if_false, hc2]
      refine ⟨by simp only [List.length_cons]; omega, ?_⟩
      rw [hstart, hrun]; simp only [List.length_cons]; congr 1; omega
    · simp only [if_true, hc1]
      refine ⟨by simp only [List.length_cons]; omega, ?_⟩
      rw [hstart, hrun]; simp only [List.length_cons]; congr 1; omega
  | none =>
    rw [hr] at hf
    simp only
    cases r with
    | nil =>
      refine ⟨by simp, ?_⟩
      rw [hstart]; simp [runFrom, accepting]
    | cons c r' =>
      obtain ⟨hn1, hd0⟩ := hf c r' rfl
      by_cases hcs : c = sc
      · subst hcs
        simp only [if_true]
        refine ⟨by simp only [List.length_cons]; omega, ?_⟩
        rw [hstart]
        have hs : step ⟨.sign plus, d⟩ c = some ⟨.afterCharge, d⟩ := by
          rw [hsc]; cases plus <;> simp [step]
        rw [runFrom_cons hs]
        simp only [List.length_cons]; congr 1; omega
      · simp only [hcs, if_false]
        refine ⟨by simp, ?_⟩
        rw [hstart]
        have hne1 : (c == '1') = false := by simpa using hn1
        have hdig : (isDig c && c != '0') = false := by
          rw [← isDigit_eq]
          cases hcd : isDigit c with
          | false => rfl
          | true => rw [hd0 hcd]; decide
        have hs : step ⟨.sign plus, d⟩ c = step ⟨.afterCharge, d⟩ c := by
          subst hsc
          cases plus
          · have : (c == '-') = false := by simpa using hcs
            simp [step, this, hne1, hdig]
          · have : (c == '+') = false := by simpa using hcs
            simp [step, this, hne1, hdig]
        simp only [runFrom, hs, List.length_cons]
        have : i + 1 + (r'.length + 1 - (r'.length + 1)) = i + 1 := by omega
        have e2 : i + (r'.length + 1 + 1 - (r'.length + 1)) = i + 1 := by omega
        rw [e2]

end Purr

namespace Purr
open Purr.Spec

theorem charge_spec (d i : Nat) (s : Str) : ChargeSpec d i s (readCharge s) := by
  unfold readCharge
  split
  · rename_i r
    apply charge_sign_spec true '+' rfl d i r
    cases hr : readFifteen r with
    | some p => obtain ⟨v, r'⟩ := p; simp only [if_true]; cases mkCharge (v : Int) <;> rfl
    | none =>
      simp only
      cases r with
      | nil => rfl
      | cons c r' =>
        by_cases hc : c = '+'
        · subst hc; simp
        · simp only [hc, if_false]
          split
          · rename_i heq; simp only [List.cons.injEq] at heq; exact absurd heq.1 hc
          · rfl
  · rename_i r
    apply charge_sign_spec false '-' rfl d i r
    cases hr : readFifteen r with
    | some p => obtain ⟨v, r'⟩ := p; simp only [Bool.false_eq_true, if_false]; cases mkCharge (-(v : Int)) <;> rfl
    | none =>
      simp only
      cases r with
      | nil => rfl
      | cons c r' =>
        by_cases hc : c = '-'
        · subst hc; simp
        · simp only [hc, if_false]
          split
          · rename_i heq; simp only [List.cons.injEq] at heq; exact absurd heq.1 hc
          · rfl
  · rename_i hp hm
    refine ⟨Nat.le_refl _, ?_⟩
    simp only [Nat.sub_self, Nat.add_zero]
    cases s with
    | nil => simp [runFrom, accepting]
    | cons c r =>
      have h1 : (c == '+') = false := by
        simp only [beq_eq_false_iff_ne]; intro e; subst e; exact hp r rfl
      have h2 : (c == '-') = false := by
        simp only [beq_eq_false_iff_ne]; intro e; subst e; exact hm r rfl
      simp only [runFrom, step, afterHStep, h1, h2, Bool.false_eq_true, if_false]

end Purr

namespace Purr
open Purr.Spec

/-! ### map number and the closing bracket -/

def mapState : Nat → Q
  | 0 => .map0 | 1 => .map1 | 2 => .map2 | _ => .map3

theorem step_map_digit (k : Nat) (hk : k < 3) (d : Nat) (c : Char) (hc : isDig c = true) :
    step ⟨mapState k, d⟩ c = some ⟨mapState (k + 1), d⟩ := by
  match k, hk with
  | 0, _ => simp [step, mapState, hc]
  | 1, _ => simp [step, mapState, hc]
  | 2, _ => simp [step, mapState, hc]

/-- in a map state after at least one digit, with no further digit to read: only `]` continues -/
theorem step_map_close (k : Nat) (hk1 : 1 ≤ k) (d : Nat) (c : Char) (hc : isDig c = false ∨ 3 ≤ k) :
    step ⟨mapState k, d⟩ c = if c == ']' then some ⟨.body, d⟩ else none := by
  match k, hk1 with
  | 1, _ => rcases hc with hc | hc; simp [step, mapState, hc]; omega
  | 2, _ => rcases hc with hc | hc; simp [step, mapState, hc]; omega
  | k + 3, _ => simp [step, mapState]

theorem takeDigits_map_run (d : Nat) : ∀ (m k acc i : Nat) (s : Str), k + m = 3 →
    ∃ k', k ≤ k' ∧ k' ≤ 3 ∧ (takeDigits m acc s).2.length ≤ s.length ∧
      runFrom ⟨mapState k, d⟩ i s = runFrom ⟨mapState k', d⟩ (i + (s.length - (takeDigits m acc s).2.length)) (takeDigits m acc s).2 ∧
      (k' = 3 ∨ ∀ c, (takeDigits m acc s).2.head? = some c → isDig c = false)
  | 0, k, acc, i, s, h => ⟨k, Nat.le_refl _, by omega, by simp [takeDigits], by simp [takeDigits], Or.inl (by omega)⟩
  | m + 1, k, acc, i, [], h => ⟨k, Nat.le_refl _, by omega, by simp [takeDigits], by simp [takeDigits], Or.inr (by simp [takeDigits])⟩
  | m + 1, k, acc, i, c :: r, h => by
    simp only [takeDigits]
    by_cases hc : isDigit c = true
    · simp only [hc, if_true]
      have hc' : isDig c = true := by rw [← isDigit_eq]; exact hc
      obtain ⟨k', h1, h2, h3, h4, h5⟩ := takeDigits_map_run d m (k + 1) (10 * acc + digitVal c) (i + 1) r (by omega)
      refine ⟨k', by omega, h2, by simp only [List.length_cons]; omega, ?_, h5⟩
      rw [runFrom_cons (step_map_digit k (by omega) d c hc'), h4]
      simp only [List.length_cons]
      congr 1; omega
    · have hc0 : isDigit c = false := by simpa using hc
      simp only [hc0, Bool.false_eq_true, if_false]
      refine ⟨k, Nat.le_refl _, by omega, Nat.le_refl _, by simp, Or.inr ?_⟩
      intro c' hc'
      simp only [List.head?_cons, Option.some.injEq] at hc'
      subst hc'; rw [← isDigit_eq]; exact hc0

/-- the end of a bracket atom: what `read_map` returns, followed by the test for `]` -/
def CloseSpec (d i : Nat) (s : Str) : Res (Option Number) → Prop
  | .ok _ r6 => r6.length ≤ s.length ∧
      (∀ r7, r6 = ']' :: r7 → runFrom ⟨.afterCharge, d⟩ i s = runFrom ⟨.body, d⟩ (i + (s.length - r7.length)) r7) ∧
      ((∀ r7, r6 ≠ ']' :: r7) → runFrom ⟨.afterCharge, d⟩ i s = failV (i + s.length) r6)
  | .fail a => a.length ≤ s.length ∧ runFrom ⟨.afterCharge, d⟩ i s = failV (i + s.length) a
  | _ => False

/-- from a state in which only `]` continues -/
theorem close_from (k : Cfg) (d i : Nat) (r6 : Str) (hacc : accepting k = false)
    (hstep : ∀ c r, r6 = c :: r → step k c = if c == ']' then some ⟨.body, d⟩ else none) :
    (∀ r7, r6 = ']' :: r7 → runFrom k i r6 = runFrom ⟨.body, d⟩ (i + 1) r7) ∧
    ((∀ r7, r6 ≠ ']' :: r7) → runFrom k i r6 = failV (i + r6.length) r6) := by
  constructor
  · intro r7 h; subst h
    have : step k ']' = some ⟨.body, d⟩ := by rw [hstep _ _ rfl]; simp
    rw [runFrom_cons this]
  · intro h
    cases r6 with
    | nil => exact runFrom_nil_nonacc hacc
    | cons c r =>
      have hc : (c == ']') = false := by
        simp only [beq_eq_false_iff_ne]; intro e; subst e; exact h r rfl
      exact runFrom_stuck (by rw [hstep _ _ rfl, hc]; rfl)

theorem map_close_spec (d i : Nat) (s : Str) : CloseSpec d i s (readMap s) := by
  unfold readMap
  split
  · rename_i r
    have hcolon : ∀ r : Str, runFrom ⟨.afterCharge, d⟩ i (':' :: r) = runFrom ⟨.map0, d⟩ (i + 1) r := by
      intro r; simp [runFrom, step, afterChargeStep]
    split
    · exact ⟨by simp, by rw [hcolon]; simp [runFrom, accepting, failV]⟩
    · rename_i c r'
      by_cases hc : isDigit c = true
      · simp only [hc, if_true]
        have hc' : isDig c = true := by rw [← isDigit_eq]; exact hc
        obtain ⟨k', h1, h2, h3, h4, h5⟩ := takeDigits_map_run d 2 1 (digitVal c) (i + 2) r' rfl
        have hrun : runFrom ⟨.afterCharge, d⟩ i (':' :: c :: r') =
            runFrom ⟨mapState k', d⟩ (i + 2 + (r'.length - (takeDigits 2 (digitVal c) r').2.length)) (takeDigits 2 (digitVal c) r').2 := by
          rw [hcolon, runFrom_cons (show step ⟨.map0, d⟩ c = some ⟨mapState 1, d⟩ from step_map_digit 0 (by omega) d c hc'), h4]
        have hcl := close_from ⟨mapState k', d⟩ d (i + 2 + (r'.length - (takeDigits 2 (digitVal c) r').2.length)) (takeDigits 2 (digitVal c) r').2
          (by match k', h1 with
              | 1, _ => simp [accepting, mapState]
              | 2, _ => simp [accepting, mapState]
              | k + 3, _ => simp [accepting, mapState])
          (by
            intro c' r0 he
            apply step_map_close k' h1 d c'
            rcases h5 with h5 | h5
            · exact Or.inr (by omega)
            · exact Or.inl (h5 c' (by rw [he]; rfl)))
        refine ⟨by simp only [List.length_cons]; omega, ?_, ?_⟩
        · intro r7 h7
          rw [hrun, hcl.1 r7 h7]
          have : r7.length + 1 = (takeDigits 2 (digitVal c) r').2.length := by rw [h7]; simp
          simp only [List.length_cons]
          congr 1; omega
        · intro hno
          rw [hrun, hcl.2 hno]
          simp only [List.length_cons]
          congr 1; omega
      · have hc0 : isDigit c = false := by simpa using hc
        simp only [hc0, Bool.false_eq_true, if_false]
        refine ⟨by simp, ?_⟩
        rw [hcolon, runFrom_stuck (by simp [step, ← isDigit_eq, hc0])]
        simp only [List.length_cons]; congr 1; omega
  · rename_i hno
    have hcl := close_from ⟨.afterCharge, d⟩ d i s (by simp [accepting]) (by
      intro c r he
      have hc : (c == ':') = false := by
        simp only [beq_eq_false_iff_ne]; intro e; subst e; exact hno r he
      simp [step, afterChargeStep, hc])
    refine ⟨Nat.le_refl _, ?_, ?_⟩
    · intro r7 h7
      rw [hcl.1 r7 h7]
      have : s.length = r7.length + 1 := by rw [h7]; simp
      congr 1; omega
    · intro h; exact hcl.2 h

end Purr

namespace Purr
open Purr.Spec

/-! ### bracket atoms -/

def BrSpec (d i : Nat) (r : Str) : Res AtomKind → Prop
  | .ok _ rest => rest.length ≤ r.length ∧ runFrom ⟨.brOpen, d⟩ i r = runFrom ⟨.body, d⟩ (i + (r.length - rest.length)) rest
  | .fail a => a.length ≤ r.length ∧ runFrom ⟨.brOpen, d⟩ i r = failV (i + r.length) a
  | _ => False

theorem bracket_spec (d i : Nat) (r : Str) : BrSpec d i r (readBracket ('[' :: r)) := by
  simp only [readBracket]
  -- isotope
  obtain ⟨k', hk3, hl1, hrun1, hnd⟩ := isotope_run d i r
  generalize (readIsotope r).1 = iso at *
  generalize hr1 : (readIsotope r).2 = r1 at *
  -- symbol
  have hsym := symbol_spec ⟨isoState k', d⟩ d (i + (r.length - r1.length)) r1
    (by match k' with
        | 0 => simp [accepting, isoState]
        | 1 => simp [accepting, isoState]
        | 2 => simp [accepting, isoState]
        | k + 3 => simp [accepting, isoState])
    (by
      intro c r0 he
      apply step_iso_other k' d c
      rcases hnd with h | h
      · exact Or.inr (by omega)
      · exact Or.inl (h c (by rw [he]; rfl)))
  cases hs : readSymbol r1 with
  | fail a =>
    rw [hs] at hsym
    obtain ⟨h1, h2⟩ := hsym
    refine ⟨by omega, ?_⟩
    rw [hrun1, h2]; congr 1; omega
  | panic p => rw [hs] at hsym; exact False.elim hsym
  | absent => rw [hs] at hsym; exact False.elim hsym
  | ok symbol r2 =>
    rw [hs] at hsym
    obtain ⟨hl2, hrun2⟩ := hsym
    simp only
    -- configuration
    have hcfg := configuration_spec d (i + (r.length - r1.length) + (r1.length - r2.length)) r2
    cases hc : readConfiguration r2 with
    | fail a =>
      rw [hc] at hcfg
      obtain ⟨h1, h2⟩ := hcfg
      refine ⟨by omega, ?_⟩
      rw [hrun1, hrun2, h2]; congr 1; omega
    | panic p => rw [hc] at hcfg; exact False.elim hcfg
    | absent => rw [hc] at hcfg; exact False.elim hcfg
    | ok configuration r3 =>
      rw [hc] at hcfg
      obtain ⟨hl3, hrun3⟩ := hcfg
      simp only
      -- hydrogens
      obtain ⟨hl4, hrun4⟩ := hcount_run d (i + (r.length - r1.length) + (r1.length - r2.length) + (r2.length - r3.length)) r3
      generalize (readHcount r3).1 = hcount at *
      generalize hr4 : (readHcount r3).2 = r4 at *
      -- charge
      have hch := charge_spec d (i + (r.length - r1.length) + (r1.length - r2.length) + (r2.length - r3.length) + (r3.length - r4.length)) r4
      cases hq : readCharge r4 with
      | fail a => rw [hq] at hch; exact False.elim hch
      | panic p => rw [hq] at hch; exact False.elim hch
      | absent => rw [hq] at hch; exact False.elim hch
      | ok charge r5 =>
        rw [hq] at hch
        obtain ⟨hl5, hrun5⟩ := hch
        simp only
        -- map and `]`
        have hmp := map_close_spec d (i + (r.length - r1.length) + (r1.length - r2.length) + (r2.length - r3.length) + (r3.length - r4.length) + (r4.length - r5.length)) r5
        cases hm : readMap r5 with
        | fail a =>
          rw [hm] at hmp
          obtain ⟨h1, h2⟩ := hmp
          refine ⟨by omega, ?_⟩
          rw [hrun1, hrun2, hrun3, hrun4, hrun5, h2]; congr 1; omega
        | panic p => rw [hm] at hmp; exact False.elim hmp
        | absent => rw [hm] at hmp; exact False.elim hmp
        | ok map r6 =>
          rw [hm] at hmp
          obtain ⟨hl6, hyes, hno⟩ := hmp
          simp only
          split
          · rename_i r7
            simp only [List.length_cons] at hl6
            refine ⟨by omega, ?_⟩
            rw [hrun1, hrun2, hrun3, hrun4, hrun5, hyes r7 rfl]; congr 1; omega
          · rename_i hne
            refine ⟨by omega, ?_⟩
            rw [hrun1, hrun2, hrun3, hrun4, hrun5, hno (fun r7 e => hne r7 e)]; congr 1; omega

end Purr

namespace Purr
open Purr.Spec

/-- `read_atom` against the automaton -/
theorem atom_spec (s : Str) (d i : Nat) : AtomSpec s d i (readAtom s) := by
  have horg := organic_spec s d i
  unfold readAtom
  cases ho : readOrganic s with
  | ok k r => rw [ho] at horg; exact horg
  | fail a => rw [ho] at horg; exact horg
  | panic p => rw [ho] at horg; exact False.elim horg
  | absent =>
    rw [ho] at horg
    simp only
    cases s with
    | nil =>
      have : readBracket [] = .absent := rfl
      simp only [this]
      exact Or.inl rfl
    | cons c r =>
      by_cases hb : c = '['
      · subst hb
        have hbr := bracket_spec d (i + 1) r
        have hst : atomStart d '[' = some ⟨.brOpen, d⟩ := by simp [atomStart]
        cases hr : readBracket ('[' :: r) with
        | ok k rest =>
          rw [hr] at hbr
          obtain ⟨h1, h2⟩ := hbr
          exact ⟨'[', r, ⟨.brOpen, d⟩, rfl, hst, h1, h2⟩
        | fail a =>
          rw [hr] at hbr
          obtain ⟨h1, h2⟩ := hbr
          exact ⟨'[', r, ⟨.brOpen, d⟩, rfl, hst, h1, h2⟩
        | panic p => rw [hr] at hbr; exact False.elim hbr
        | absent => rw [hr] at hbr; exact False.elim hbr
      · have hnb : readBracket (c :: r) = .absent := by
          unfold readBracket
          split
          · rename_i heq; simp only [List.cons.injEq] at heq; exact absurd heq.1 hb
          · rfl
        simp only [hnb]
        by_cases hs : c = '*'
        · subst hs
          exact ⟨'*', r, ⟨.body, d⟩, rfl, by simp [atomStart], Nat.le_refl _, by simp⟩
        · split
          · rename_i heq; simp only [List.cons.injEq] at heq; exact absurd heq.1 hs
          · right
            refine ⟨c, r, rfl, Or.inr (Or.inr ?_)⟩
            rcases horg with h | ⟨c', r', he, h⟩
            · cases h
            · simp only [List.cons.injEq] at he
              obtain ⟨rfl, rfl⟩ := he
              rcases h with h | h | h
              · exact absurd h hb
              · exact absurd h hs
              · exact h

end Purr

namespace Purr
open Purr.Spec

/-! ### ring numbers, bonds and the body step -/

def RnumSpec (s : Str) (d i : Nat) : Res Rnum → Prop
  | .ok _ rest => ∃ c r k1, s = c :: r ∧ rnumStart d c = some k1 ∧ rest.length ≤ r.length ∧
      runFrom k1 (i + 1) r = runFrom ⟨.body, d⟩ (i + 1 + (r.length - rest.length)) rest
  | .fail a => ∃ c r k1, s = c :: r ∧ rnumStart d c = some k1 ∧ a.length ≤ r.length ∧
      runFrom k1 (i + 1) r = failV (i + 1 + r.length) a
  | .absent => s = [] ∨ ∃ c r, s = c :: r ∧ rnumStart d c = none
  | .panic _ => False

theorem pct_not_digit : isDig '%' = false := by decide

theorem rnum_spec (s : Str) (d i : Nat) : RnumSpec s d i (readRnum s) := by
  cases s with
  | nil => exact Or.inl rfl
  | cons c r =>
    simp only [readRnum]
    by_cases hc : isDigit c = true
    · simp only [hc, dite_true]
      exact ⟨c, r, ⟨.body, d⟩, rfl, by simp [rnumStart, ← isDigit_eq, hc], Nat.le_refl _, by simp⟩
    · have hc0 : isDigit c = false := by simpa using hc
      simp only [hc0, Bool.false_eq_true, dite_false]
      by_cases hp : c = '%'
      · subst hp
        simp only [if_true]
        have hst : rnumStart d '%' = some ⟨.pct1, d⟩ := by simp [rnumStart, pct_not_digit]
        cases r with
        | nil => exact ⟨'%', [], ⟨.pct1, d⟩, rfl, hst, Nat.le_refl _, by simp [runFrom, accepting, failV]⟩
        | cons d1 r1 =>
          by_cases h1 : isDigit d1 = true
          · simp only [h1, dite_true]
            have hs1 : step ⟨.pct1, d⟩ d1 = some ⟨.pct2, d⟩ := by simp [step, ← isDigit_eq, h1]
            cases r1 with
            | nil =>
              refine ⟨'%', [d1], ⟨.pct1, d⟩, rfl, hst, by simp, ?_⟩
              rw [runFrom_cons hs1]; simp [runFrom, accepting, failV]
            | cons d2 r2 =>
              by_cases h2 : isDigit d2 = true
              · simp only [h2, dite_true]
                refine ⟨'%', d1 :: d2 :: r2, ⟨.pct1, d⟩, rfl, hst, by simp only [List.length_cons]; omega, ?_⟩
                have hs2 : step ⟨.pct2, d⟩ d2 = some ⟨.body, d⟩ := by simp [step, ← isDigit_eq, h2]
                rw [runFrom_cons hs1, runFrom_cons hs2]
                simp only [List.length_cons]; congr 1; omega
              · have h20 : isDigit d2 = false := by simpa using h2
                simp only [h20, Bool.false_eq_true, dite_false]
                refine ⟨'%', d1 :: d2 :: r2, ⟨.pct1, d⟩, rfl, hst, by simp, ?_⟩
                rw [runFrom_cons hs1, runFrom_stuck (by simp [step, ← isDigit_eq, h20])]
                simp only [List.length_cons]; congr 1; omega
          · have h10 : isDigit d1 = false := by simpa using h1
            simp only [h10, Bool.false_eq_true, dite_false]
            refine ⟨'%', d1 :: r1, ⟨.pct1, d⟩, rfl, hst, Nat.le_refl _, ?_⟩
            rw [runFrom_stuck (by simp [step, ← isDigit_eq, h10])]
      · simp only [hp, if_false]
        right
        have : (c == '%') = false := by simpa using hp
        exact ⟨c, r, rfl, by simp [rnumStart, ← isDigit_eq, hc0, this]⟩

/-- characters that start an atom or a ring number are not structural characters -/
theorem atomStart_some_plain {d : Nat} {c : Char} {k : Cfg} (h : atomStart d c = some k) :
    (c == '(') = false ∧ (c == ')') = false ∧ (c == '.') = false ∧ isBondCh c = false := by
  have key : ∀ x : Char, atomStart d x = none → (c == x) = false := by
    intro x hx
    simp only [beq_eq_false_iff_ne]
    intro e; subst e; rw [hx] at h; cases h
  have a1 := key '(' (by simp [atomStart])
  have a2 := key ')' (by simp [atomStart])
  have a3 := key '.' (by simp [atomStart])
  have b1 := key '-' (by simp [atomStart])
  have b2 := key '=' (by simp [atomStart])
  have b3 := key '#' (by simp [atomStart])
  have b4 := key '$' (by simp [atomStart])
  have b5 := key ':' (by simp [atomStart])
  have b6 := key '/' (by simp [atomStart])
  have b7 := key '\\' (by simp [atomStart])
  exact ⟨a1, a2, a3, by simp [isBondCh, b1, b2, b3, b4, b5, b6, b7]⟩

theorem rnumStart_some_plain {d : Nat} {c : Char} {k : Cfg} (h : rnumStart d c = some k) :
    (c == '(') = false ∧ (c == ')') = false ∧ (c == '.') = false ∧ isBondCh c = false ∧ atomStart d c = none := by
  have key : ∀ x : Char, rnumStart d x = none → (c == x) = false := by
    intro x hx
    simp only [beq_eq_false_iff_ne]
    intro e; subst e; rw [hx] at h; cases h
  have a1 := key '(' (by simp [rnumStart, isDig])
  have a2 := key ')' (by simp [rnumStart, isDig])
  have a3 := key '.' (by simp [rnumStart, isDig])
  have b1 := key '-' (by simp [rnumStart, isDig])
  have b2 := key '=' (by simp [rnumStart, isDig])
  have b3 := key '#' (by simp [rnumStart, isDig])
  have b4 := key '$' (by simp [rnumStart, isDig])
  have b5 := key ':' (by simp [rnumStart, isDig])
  have b6 := key '/' (by simp [rnumStart, isDig])
  have b7 := key '\\' (by simp [rnumStart, isDig])
  refine ⟨a1, a2, a3, by simp [isBondCh, b1, b2, b3, b4, b5, b6, b7], ?_⟩
  unfold rnumStart at h
  split at h
  · rename_i hd
    have hd' : isDigit c = true := by rw [isDigit_eq]; exact hd
    rcases digit_cases c hd' with rfl | rfl | rfl | rfl | rfl | rfl | rfl | rfl | rfl | rfl <;> simp [atomStart]
  · split at h
    · rename_i hp
      have : c = '%' := by simpa using hp
      subst this; simp [atomStart]
    · cases h

end Purr

namespace Purr
open Purr.Spec

theorem atom_absent {c : Char} {r : Str} (d : Nat) (h : readAtom (c :: r) = .absent) : atomStart d c = none := by
  have hspec := atom_spec (c :: r) d 0
  rw [h] at hspec
  rcases hspec with h' | ⟨c', r', he, h'⟩
  · cases h'
  · simp only [List.cons.injEq] at he
    obtain ⟨rfl, rfl⟩ := he
    rcases h' with rfl | rfl | h'
    · -- `[`: the bracket reader never answers "absent"
      exfalso
      unfold readAtom at h
      have hb := bracket_spec d 0 r
      cases ho : readOrganic ('[' :: r) with
      | ok k x => rw [ho] at h; cases h
      | fail a => rw [ho] at h; cases h
      | panic p => rw [ho] at h; cases h
      | absent =>
        rw [ho] at h
        simp only at h
        cases hr : readBracket ('[' :: r) with
        | ok k x => rw [hr] at h; cases h
        | fail a => rw [hr] at h; cases h
        | panic p => rw [hr] at h; cases h
        | absent => rw [hr] at hb; exact hb
    · exfalso
      unfold readAtom at h
      cases ho : readOrganic ('*' :: r) with
      | ok k x => rw [ho] at h; cases h
      | fail a => rw [ho] at h; cases h
      | panic p => rw [ho] at h; cases h
      | absent =>
        rw [ho] at h
        simp only at h
        have hnb : readBracket ('*' :: r) = .absent := rfl
        rw [hnb] at h
        cases h
    · exact h'

theorem readBond_elided {s : Str} (h : (readBond s).1 = .elided) : (readBond s).2 = s ∧ ∀ c r, s = c :: r → isBondCh c = false := by
  unfold readBond at h ⊢
  split at h
  all_goals (try (cases h))
  rename_i h1 h2 h3 h4 h5 h6 h7
  refine ⟨rfl, ?_⟩
  intro c r he
  subst he
  have e : ∀ x : Char, (∀ r', c :: r = x :: r' → False) → (c == x) = false := by
    intro x hx; simp only [beq_eq_false_iff_ne]; intro e; subst e; exact hx r rfl
  simp [isBondCh, e _ h1, e _ h2, e _ h3, e _ h4, e _ h5, e _ h6, e _ h7]

theorem readBond_shape2 (w : Str) : ((readBond w).1 = .elided ∧ (readBond w).2 = w) ∨
    ((readBond w).1 ≠ .elided ∧ ∃ c, w = c :: (readBond w).2 ∧ (readBond w).1.text = [c]) := by
  unfold readBond
  split
  all_goals first
    | (right; exact ⟨by simp, _, rfl, rfl⟩)
    | (left; exact ⟨rfl, rfl⟩)

theorem readBond_explicit {s : Str} (h : (readBond s).1 ≠ .elided) : ∃ c, s = c :: (readBond s).2 ∧ isBondCh c = true := by
  rcases readBond_shape2 s with ⟨h1, _⟩ | ⟨_, c, hw, ht⟩
  · exact absurd h1 h
  · refine ⟨c, hw, ?_⟩
    cases hk : (readBond s).1 <;> rw [hk] at ht <;> simp only [BondKind.text, List.cons.injEq, and_true] at ht
    all_goals first
      | (subst ht; decide)
      | (cases ht)

end Purr

namespace Purr
open Purr.Spec

/-- what one step of the reader's body loop means for the automaton in state `body` -/
def BodySpec (d i : Nat) (s : Str) : BodyStep → Prop
  | .openParen rest => s = '(' :: rest
  | .dot rest => s = '.' :: rest
  | .atom _ _ rest => rest.length < s.length ∧ runFrom ⟨.body, d⟩ i s = runFrom ⟨.body, d⟩ (i + (s.length - rest.length)) rest
  | .ring _ _ rest => rest.length < s.length ∧ runFrom ⟨.body, d⟩ i s = runFrom ⟨.body, d⟩ (i + (s.length - rest.length)) rest
  | .close rest => s = ')' :: rest
  | .eoi => s = []
  | .fail a => a.length ≤ s.length ∧ runFrom ⟨.body, d⟩ i s = failV (i + s.length) a
  | .panic _ => False

/-- the part after the optional bond: an atom or a ring number, from a state whose move on the first character
    is "atom start, else ring-number start" -/
theorem after_bond_spec (d j : Nat) (k : Cfg) (s' : Str) (hacc : accepting k = false)
    (hstep : ∀ c, step k c = (match atomStart d c with | some k' => some k' | none => rnumStart d c)) :
    (∀ ak rest, readAtom s' = .ok ak rest → rest.length < s'.length ∧ runFrom k j s' = runFrom ⟨.body, d⟩ (j + (s'.length - rest.length)) rest) ∧
    (∀ a, readAtom s' = .fail a → a.length ≤ s'.length ∧ runFrom k j s' = failV (j + s'.length) a) ∧
    (readAtom s' = .absent →
      (∀ rn rest, readRnum s' = .ok rn rest → rest.length < s'.length ∧ runFrom k j s' = runFrom ⟨.body, d⟩ (j + (s'.length - rest.length)) rest) ∧
      (∀ a, readRnum s' = .fail a → a.length ≤ s'.length ∧ runFrom k j s' = failV (j + s'.length) a) ∧
      (readRnum s' = .absent → runFrom k j s' = failV (j + s'.length) s')) := by
  have hA := atom_spec s' d j
  refine ⟨?_, ?_, ?_⟩
  · intro ak rest h
    rw [h] at hA
    obtain ⟨c, r, k1, rfl, hs, hl, hrun⟩ := hA
    refine ⟨by simp only [List.length_cons]; omega, ?_⟩
    rw [runFrom_cons (by rw [hstep, hs]), hrun]
    simp only [List.length_cons]; congr 1; omega
  · intro a h
    rw [h] at hA
    obtain ⟨c, r, k1, rfl, hs, hl, hrun⟩ := hA
    refine ⟨by simp only [List.length_cons]; omega, ?_⟩
    rw [runFrom_cons (by rw [hstep, hs]), hrun]
    simp only [List.length_cons]; congr 1; omega
  · intro habs
    have hR := rnum_spec s' d j
    refine ⟨?_, ?_, ?_⟩
    · intro rn rest h
      rw [h] at hR
      obtain ⟨c, r, k1, rfl, hs, hl, hrun⟩ := hR
      have hno := atom_absent d habs
      refine ⟨by simp only [List.length_cons]; omega, ?_⟩
      rw [runFrom_cons (by rw [hstep, hno]; exact hs), hrun]
      simp only [List.length_cons]; congr 1; omega
    · intro a h
      rw [h] at hR
      obtain ⟨c, r, k1, rfl, hs, hl, hrun⟩ := hR
      have hno := atom_absent d habs
      refine ⟨by simp only [List.length_cons]; omega, ?_⟩
      rw [runFrom_cons (by rw [hstep, hno]; exact hs), hrun]
      simp only [List.length_cons]; congr 1; omega
    · intro h
      rw [h] at hR
      rcases hR with rfl | ⟨c, r, rfl, hs⟩
      · exact runFrom_nil_nonacc hacc
      · have hno := atom_absent d habs
        exact runFrom_stuck (by rw [hstep, hno]; exact hs)

theorem body_spec (d i : Nat) (s : Str) : BodySpec d i s (bodyStep s) := by
  unfold bodyStep
  split
  · rfl
  · rfl
  · rename_i hno1 hno2
    -- not `(`, not `.`
    have hp1 : ∀ c r, s = c :: r → (c == '(') = false := by
      intro c r he; simp only [beq_eq_false_iff_ne]; intro e; subst e; exact hno1 r he
    have hp2 : ∀ c r, s = c :: r → (c == '.') = false := by
      intro c r he; simp only [beq_eq_false_iff_ne]; intro e; subst e; exact hno2 r he
    unfold unionStep
    by_cases hb : (readBond s).1 = .elided
    · -- no bond symbol
      obtain ⟨hs', hnb⟩ := readBond_elided hb
      rw [hs']
      -- the body state moves like "atom start, else ring-number start" on a plain character
      have hplain : ∀ c r, s = c :: r → (∃ k', atomStart d c = some k') ∨ (∃ k', rnumStart d c = some k') →
          step ⟨.body, d⟩ c = (match atomStart d c with | some k' => some k' | none => rnumStart d c) := by
        intro c r he hor
        have hpl : (c == '(') = false ∧ (c == ')') = false ∧ (c == '.') = false ∧ isBondCh c = false := by
          rcases hor with ⟨k', h'⟩ | ⟨k', h'⟩
          · exact atomStart_some_plain h'
          · obtain ⟨a, b, c', e, _⟩ := rnumStart_some_plain h'; exact ⟨a, b, c', e⟩
        simp only [step, Spec.bodyStep, hpl.1, hpl.2.1, hpl.2.2.1, hpl.2.2.2, Bool.false_eq_true, if_false]
        cases atomStart d c <;> rfl
      have hA := atom_spec s d i
      cases ha : readAtom s with
      | ok ak rest =>
        rw [ha] at hA
        obtain ⟨c, r, k1, rfl, hs, hl, hrun⟩ := hA
        simp only
        refine ⟨by simp only [List.length_cons]; omega, ?_⟩
        rw [runFrom_cons (by rw [hplain c r rfl (Or.inl ⟨k1, hs⟩), hs]), hrun]
        simp only [List.length_cons]; congr 1; omega
      | fail a =>
        rw [ha] at hA
        obtain ⟨c, r, k1, rfl, hs, hl, hrun⟩ := hA
        simp only
        refine ⟨by simp only [List.length_cons]; omega, ?_⟩
        rw [runFrom_cons (by rw [hplain c r rfl (Or.inl ⟨k1, hs⟩), hs]), hrun]
        simp only [List.length_cons]; congr 1; omega
      | panic p => rw [ha] at hA; exact False.elim hA
      | absent =>
        simp only
        have hR := rnum_spec s d i
        cases hr : readRnum s with
        | ok rn rest =>
          rw [hr] at hR
          obtain ⟨c, r, k1, rfl, hs, hl, hrun⟩ := hR
          have hno := atom_absent d ha
          simp only
          refine ⟨by simp only [List.length_cons]; omega, ?_⟩
          rw [runFrom_cons (by rw [hplain c r rfl (Or.inr ⟨k1, hs⟩), hno]; exact hs), hrun]
          simp only [List.length_cons]; congr 1; omega
        | fail a =>
          rw [hr] at hR
          obtain ⟨c, r, k1, rfl, hs, hl, hrun⟩ := hR
          have hno := atom_absent d ha
          simp only
          refine ⟨by simp only [List.length_cons]; omega, ?_⟩
          rw [runFrom_cons (by rw [hplain c r rfl (Or.inr ⟨k1, hs⟩), hno]; exact hs), hrun]
          simp only [List.length_cons]; congr 1; omega
        | panic p => rw [hr] at hR; exact False.elim hR
        | absent =>
          simp only [hb, ne_eq, not_true_eq_false, if_false]
          split
          · rfl
          · rfl
          · rename_i hne1 hne2
            cases s with
            | nil => exact absurd rfl hne1
            | cons c r =>
              refine ⟨Nat.le_refl _, ?_⟩
              have hc3 : (c == ')') = false := by
                simp only [beq_eq_false_iff_ne]; intro e; subst e; exact hne2 r rfl
              have hno := atom_absent d ha
              rw [hr] at hR
              have hrn : rnumStart d c = none := by
                rcases hR with h' | ⟨c', r', he, h'⟩
                · cases h'
                · simp only [List.cons.injEq] at he; obtain ⟨rfl, rfl⟩ := he; exact h'
              exact runFrom_stuck (by
                simp only [step, Spec.bodyStep, hp1 c r rfl, hc3, hp2 c r rfl, hnb c r rfl, hno, hrn, Bool.false_eq_true, if_false])
    · -- an explicit bond symbol, then an atom or a ring number
      obtain ⟨bc, hs, hbc⟩ := readBond_explicit hb
      have hbplain : (bc == '(') = false ∧ (bc == ')') = false ∧ (bc == '.') = false := by
        revert hbc; unfold isBondCh
        intro h
        refine ⟨?_, ?_, ?_⟩ <;> (simp only [beq_eq_false_iff_ne]; intro e; subst e; revert h; decide)
      have hstep0 : step ⟨.body, d⟩ bc = some ⟨.afterBond, d⟩ := by
        simp only [step, Spec.bodyStep, hbplain.1, hbplain.2.1, hbplain.2.2, hbc, Bool.false_eq_true, if_false, if_true]
      have hrun0 : runFrom ⟨.body, d⟩ i s = runFrom ⟨.afterBond, d⟩ (i + 1) (readBond s).2 := by
        conv => lhs; rw [hs]
        exact runFrom_cons hstep0
      have hlen : s.length = (readBond s).2.length + 1 := by
        conv => lhs; rw [hs]
        simp
      obtain ⟨h1, h2, h3⟩ := after_bond_spec d (i + 1) ⟨.afterBond, d⟩ (readBond s).2 (by simp [accepting]) (fun c => rfl)
      cases ha : readAtom (readBond s).2 with
      | ok ak rest =>
        obtain ⟨hl, hrun⟩ := h1 ak rest ha
        simp only
        refine ⟨by omega, ?_⟩
        rw [hrun0, hrun]; congr 1; omega
      | fail a =>
        obtain ⟨hl, hrun⟩ := h2 a ha
        simp only
        refine ⟨by omega, ?_⟩
        rw [hrun0, hrun]; congr 1; omega
      | panic p =>
        have := atom_spec (readBond s).2 d 0
        rw [ha] at this; exact False.elim this
      | absent =>
        obtain ⟨g1, g2, g3⟩ := h3 ha
        simp only
        cases hr : readRnum (readBond s).2 with
        | ok rn rest =>
          obtain ⟨hl, hrun⟩ := g1 rn rest hr
          simp only
          refine ⟨by omega, ?_⟩
          rw [hrun0, hrun]; congr 1; omega
        | fail a =>
          obtain ⟨hl, hrun⟩ := g2 a hr
          simp only
          refine ⟨by omega, ?_⟩
          rw [hrun0, hrun]; congr 1; omega
        | panic p =>
          have := rnum_spec (readBond s).2 d 0
          rw [hr] at this; exact False.elim this
        | absent =>
          simp only [hb, ne_eq, not_false_eq_true, if_true]
          refine ⟨by omega, ?_⟩
          rw [hrun0, g3 hr]; congr 1; omega

end Purr

namespace Purr
open Purr.Spec

/-! ### the reader and the automaton agree -/

def toSpec (n : Nat) : Verdict → Spec.Verdict
  | .ok => .ok
  | .fail a => failV n a
  | .panic _ => .ok

def qOf : Mode → Q
  | .needRoot => .needAtom
  | .needAtom _ => .needAtom
  | .afterOpen => .afterOpen
  | .body => .body

theorem bump_length_succ {stack : List Nat} {d : Nat} (h : stack.length = d + 1) : (bump stack).length = d + 1 := by
  cases stack with
  | nil => simp at h
  | cons l st => simpa [bump] using h

theorem need_atom_eq (d i : Nat) (s : Str) :
    (∀ k rest, readAtom s = .ok k rest → rest.length < s.length ∧
        runFrom ⟨.needAtom, d⟩ i s = runFrom ⟨.body, d⟩ (i + (s.length - rest.length)) rest) ∧
    (∀ a, readAtom s = .fail a → a.length ≤ s.length ∧ runFrom ⟨.needAtom, d⟩ i s = failV (i + s.length) a) ∧
    (readAtom s = .absent → runFrom ⟨.needAtom, d⟩ i s = failV (i + s.length) s) ∧
    (∀ p, readAtom s ≠ .panic p) := by
  have hA := atom_spec s d i
  refine ⟨?_, ?_, ?_, ?_⟩
  · intro k rest h
    rw [h] at hA
    obtain ⟨c, r, k1, rfl, hs, hl, hrun⟩ := hA
    refine ⟨by simp only [List.length_cons]; omega, ?_⟩
    rw [runFrom_cons (show step ⟨.needAtom, d⟩ c = some k1 from hs), hrun]
    simp only [List.length_cons]; congr 1; omega
  · intro a h
    rw [h] at hA
    obtain ⟨c, r, k1, rfl, hs, hl, hrun⟩ := hA
    refine ⟨by simp only [List.length_cons]; omega, ?_⟩
    rw [runFrom_cons (show step ⟨.needAtom, d⟩ c = some k1 from hs), hrun]
    simp only [List.length_cons]; congr 1; omega
  · intro h
    cases s with
    | nil => exact runFrom_nil_nonacc (by simp [accepting])
    | cons c r => exact runFrom_stuck (show step ⟨.needAtom, d⟩ c = none from atom_absent d h)
  · intro p h
    rw [h] at hA; exact hA

theorem norm_afterOpen (d i : Nat) (s : Str) (h : ∀ c r, s = c :: r → (c == '.') = false ∧ isBondCh c = false) :
    runFrom ⟨.afterOpen, d⟩ i s = runFrom ⟨.needAtom, d⟩ i s := by
  cases s with
  | nil => simp [runFrom, accepting]
  | cons c r =>
    obtain ⟨h1, h2⟩ := h c r rfl
    simp only [runFrom, step, h1, h2, Bool.or_self, Bool.false_eq_true, if_false]

theorem run_eq (mode : Mode) (stack : List Nat) (s : Str) : ∀ (d i : Nat), stack.length = d + 1 →
    toSpec (i + s.length) (run mode stack s).2 = runFrom ⟨qOf mode, d⟩ i s := by
  fun_induction run mode stack s <;> intro d i hlen
  all_goals (try simp only [qOf] at *)
  case case1 stack s k rest h q ih =>
    obtain ⟨h1, _, _, _⟩ := need_atom_eq d i s
    obtain ⟨hl, hrun⟩ := h1 k rest h
    show toSpec (i + s.length) q.2 = runFrom ⟨.needAtom, d⟩ i s
    rw [hrun, ← ih d (i + (s.length - rest.length)) (bump_length_succ hlen)]
    congr 1; omega
  case case2 stack s h =>
    obtain ⟨_, _, h3, _⟩ := need_atom_eq d i s
    exact (h3 h).symm
  case case3 stack s a h =>
    obtain ⟨_, h2, _, _⟩ := need_atom_eq d i s
    exact (h2 a h).2.symm
  case case4 stack s p h =>
    obtain ⟨_, _, _, h4⟩ := need_atom_eq d i s
    exact absurd h (h4 p)
  case case5 stack s b k rest h q ih =>
    obtain ⟨h1, _, _, _⟩ := need_atom_eq d i s
    obtain ⟨hl, hrun⟩ := h1 k rest h
    show toSpec (i + s.length) q.2 = runFrom ⟨.needAtom, d⟩ i s
    rw [hrun, ← ih d (i + (s.length - rest.length)) (bump_length_succ hlen)]
    congr 1; omega
  case case6 stack s b h =>
    obtain ⟨_, _, h3, _⟩ := need_atom_eq d i s
    exact (h3 h).symm
  case case7 stack s b a h =>
    obtain ⟨_, h2, _, _⟩ := need_atom_eq d i s
    exact (h2 a h).2.symm
  case case8 stack s b p h =>
    obtain ⟨_, _, _, h4⟩ := need_atom_eq d i s
    exact absurd h (h4 p)
  case case9 stack rest ih =>
    show toSpec (i + ('.' :: rest).length) _ = runFrom ⟨.afterOpen, d⟩ i ('.' :: rest)
    rw [runFrom_cons (show step ⟨.afterOpen, d⟩ '.' = some ⟨.needAtom, d⟩ by simp [step]), ← ih d (i + 1) hlen]
    simp only [List.length_cons]; congr 1; omega
  case case10 stack s hx ih =>
    show toSpec (i + s.length) _ = runFrom ⟨.afterOpen, d⟩ i s
    by_cases hb : (readBond s).1 = .elided
    · obtain ⟨hs', hnb⟩ := readBond_elided hb
      rw [hs'] at ih
      rw [norm_afterOpen d i s (by
        intro c r he
        refine ⟨?_, hnb c r he⟩
        simp only [beq_eq_false_iff_ne]; intro e; subst e; exact hx r he), ← ih d i hlen, hs']
    · obtain ⟨bc, hs, hbc⟩ := readBond_explicit hb
      have hstep : step ⟨.afterOpen, d⟩ bc = some ⟨.needAtom, d⟩ := by simp [step, hbc]
      have hl : s.length = (readBond s).2.length + 1 := by
        conv => lhs; rw [hs]
        simp
      have hrun : runFrom ⟨.afterOpen, d⟩ i s = runFrom ⟨.needAtom, d⟩ (i + 1) (readBond s).2 := by
        conv => lhs; rw [hs]
        exact runFrom_cons hstep
      rw [hrun, ← ih d (i + 1) hlen]
      congr 1; omega
  case case11 stack s rest h ih =>
    have := body_spec d i s
    rw [h] at this
    subst this
    show toSpec (i + ('(' :: rest).length) _ = runFrom ⟨.body, d⟩ i ('(' :: rest)
    rw [runFrom_cons (show step ⟨.body, d⟩ '(' = some ⟨.afterOpen, d + 1⟩ by simp [step, Spec.bodyStep]),
      ← ih (d + 1) (i + 1) (by simp [hlen])]
    simp only [List.length_cons]; congr 1; omega
  case case12 stack s rest h ih =>
    have := body_spec d i s
    rw [h] at this
    subst this
    show toSpec (i + ('.' :: rest).length) _ = runFrom ⟨.body, d⟩ i ('.' :: rest)
    rw [runFrom_cons (show step ⟨.body, d⟩ '.' = some ⟨.needAtom, d⟩ by simp [step, Spec.bodyStep]), ← ih d (i + 1) hlen]
    simp only [List.length_cons]; congr 1; omega
  case case13 stack s b k rest h q ih =>
    have hb := body_spec d i s
    rw [h] at hb
    obtain ⟨hl, hrun⟩ := hb
    show toSpec (i + s.length) q.2 = runFrom ⟨.body, d⟩ i s
    rw [hrun, ← ih d (i + (s.length - rest.length)) (bump_length_succ hlen)]
    congr 1; omega
  case case14 stack s b r rest h q ih =>
    have hb := body_spec d i s
    rw [h] at hb
    obtain ⟨hl, hrun⟩ := hb
    show toSpec (i + s.length) q.2 = runFrom ⟨.body, d⟩ i s
    rw [hrun, ← ih d (i + (s.length - rest.length)) hlen]
    congr 1; omega
  case case15 s rest h l l' st q ih =>
    have hb := body_spec d i s
    rw [h] at hb
    subst hb
    simp only [List.length_cons] at hlen
    show toSpec (i + (')' :: rest).length) q.2 = runFrom ⟨.body, d⟩ i (')' :: rest)
    have hd : d ≠ 0 := by omega
    rw [runFrom_cons (show step ⟨.body, d⟩ ')' = some ⟨.body, d - 1⟩ by simp [step, Spec.bodyStep, hd]),
      ← ih (d - 1) (i + 1) (by simp only [List.length_cons]; omega)]
    simp only [List.length_cons]; congr 1; omega
  case case16 stack s rest h hst =>
    have hb := body_spec d i s
    rw [h] at hb
    subst hb
    have hd : d = 0 := by
      match stack, hlen with
      | [x], _ => simp at *; omega
      | x :: y :: st, _ => exact absurd rfl (hst x y st)
    subst hd
    show failV _ _ = _
    exact (runFrom_stuck (show step ⟨.body, 0⟩ ')' = none by simp [step, Spec.bodyStep])).symm
  case case17 s h x =>
    have hb := body_spec d i s
    rw [h] at hb
    subst hb
    simp only [List.length_cons, List.length_nil] at hlen
    have hd : d = 0 := by omega
    subst hd
    rfl
  case case18 stack s h hst =>
    have hb := body_spec d i s
    rw [h] at hb
    subst hb
    have hd : d ≠ 0 := by
      intro e; subst e
      match stack, hlen with
      | [x], _ => exact hst x rfl
    show failV _ _ = _
    simp [runFrom, accepting, hd, failV]
  case case19 stack s a h =>
    have hb := body_spec d i s
    rw [h] at hb
    exact hb.2.symm
  case case20 stack s p h =>
    have hb := body_spec d i s
    rw [h] at hb
    exact False.elim hb

/-- THE READER ACCEPTS EXACTLY THE DOCUMENTED GRAMMAR AND REPORTS ITS ERROR POSITION: for every string the verdict
    of `read` — `ok`, `EndOfLine`, or `Character(i)` — is the verdict of the grammar automaton. -/
theorem read_eq_classify (s : Str) : toSpec s.length (read s).2 = classify s := by
  have := run_eq .needRoot [0] s 0 0 rfl
  simpa [read, classify, start, qOf] using this

end Purr

namespace Purr
open Purr.Spec

theorem toSpec_fail_ne_ok (n : Nat) (a : Str) : toSpec n (.fail a) ≠ .ok := by
  show failV n a ≠ .ok
  unfold failV
  split <;> simp

end Purr
