/-
  Purr.Model.Token — character-level readers for each token class.
  Mirrors src/read/{read_bond,read_rnum,read_organic,read_symbol,read_configuration,
  read_charge,read_bracket}.rs and `read_atom`/`read_star` of read.rs, on the repaired tree.

  A Rust reader works on a `Scanner` (Vec<char> + cursor).  Here a reader takes the remaining
  input and returns the remaining input, so cursor = total length − remaining length.
  `Res.fail at` stands for `Err(missing_character(scanner))` with the scanner positioned at `at`:
  `EndOfLine` when `at = []`, `Character(cursor)` otherwise.  Every error site of the token
  readers has this shape (read_map's `Character(cursor - 1)` after popping a non-digit is
  `fail` at the list that still starts with that character).
-/
import Purr.Model.Feature
namespace Purr

inductive Res (α : Type) where
  /-- `Ok(Some v)` / `Ok(v)`; scanner now at `rest` -/
  | ok (a : α) (rest : Str)
  /-- `Ok(None)`: token class not present, nothing consumed -/
  | absent
  /-- `Err(..)` with the scanner at `at` -/
  | fail (at_ : Str)
  /-- a Rust panic site (`expect`, `unreachable!`, overflow); `Props/C06` shows these unreachable -/
  | panic (site : String)
  deriving DecidableEq, Repr

def isDigit (c : Char) : Bool := 48 ≤ c.toNat && c.toNat ≤ 57
def digitVal (c : Char) : Nat := c.toNat - 48

def allDigits (s : Str) : Bool := !s.isEmpty && s.all isDigit
def digitsVal (s : Str) : Nat := s.foldl (fun a c => 10 * a + digitVal c) 0

/-- `impl TryInto<Number> for String` (after fix D8): `str::parse::<u16>` (optional leading `+`,
    then one or more ASCII digits, value ≤ 65535) followed by the range check of `TryFrom<u16>`. -/
def Number.ofString? (s : Str) : Option Number :=
  let body := match s with | '+' :: r => r | _ => s
  if allDigits body then
    let v := digitsVal body
    if v < 65536 then Number.ofNat? v else none
  else none

/-- `read_bond` -/
def readBond : Str → BondKind × Str
  | '-' :: r => (.single, r)
  | '=' :: r => (.double, r)
  | '#' :: r => (.triple, r)
  | '$' :: r => (.quadruple, r)
  | ':' :: r => (.aromatic, r)
  | '/' :: r => (.up, r)
  | '\\' :: r => (.down, r)
  | s => (.elided, s)

/-- `read_rnum`: a digit, or `%` followed by exactly two digits -/
def readRnum : Str → Res Rnum
  | [] => .absent
  | c :: r =>
    if h : isDigit c then
      .ok ⟨digitVal c, by simp [isDigit, digitVal] at *; omega⟩ r
    else if c = '%' then
      match r with
      | [] => .fail []
      | d1 :: r1 =>
        if h1 : isDigit d1 then
          match r1 with
          | [] => .fail []
          | d2 :: r2 =>
            if h2 : isDigit d2 then
              .ok ⟨10 * digitVal d1 + digitVal d2, by simp [isDigit, digitVal] at *; omega⟩ r2
            else .fail (d2 :: r2)
        else .fail (d1 :: r1)
    else .absent

/-- `read_organic` -/
def readOrganic : Str → Res AtomKind
  | 'b' :: r => .ok (.aromatic .B) r
  | 'c' :: r => .ok (.aromatic .C) r
  | 'n' :: r => .ok (.aromatic .N) r
  | 'o' :: r => .ok (.aromatic .O) r
  | 'p' :: r => .ok (.aromatic .P) r
  | 's' :: r => .ok (.aromatic .S) r
  | 'A' :: r => match r with
    | 't' :: r' => .ok (.aliphatic .At) r'
    | _ => .fail r
  | 'B' :: r => match r with
    | 'r' :: r' => .ok (.aliphatic .Br) r'
    | _ => .ok (.aliphatic .B) r
  | 'C' :: r => match r with
    | 'l' :: r' => .ok (.aliphatic .Cl) r'
    | _ => .ok (.aliphatic .C) r
  | 'N' :: r => .ok (.aliphatic .N) r
  | 'O' :: r => .ok (.aliphatic .O) r
  | 'P' :: r => .ok (.aliphatic .P) r
  | 'S' :: r => .ok (.aliphatic .S) r
  | 'F' :: r => .ok (.aliphatic .F) r
  | 'I' :: r => .ok (.aliphatic .I) r
  | 'T' :: r => match r with
    | 's' :: r' => .ok (.aliphatic .Ts) r'
    | _ => .fail r
  | _ => .absent


/-- first characters that have an arm in `read_symbol` (the character is consumed) -/

def symFirst : List Char :=
  ['*', 'a', 'b', 'c', 'n', 'o', 'p', 's', 'A', 'B', 'C', 'D', 'E', 'F', 'G', 'H', 'I', 'K', 'L', 'M', 'N', 'O', 'P', 'R', 'S', 'T', 'U', 'V', 'W', 'X', 'Y', 'Z']

/-- one-letter meanings: the default of the arm for that first character (absent = `Err`) -/

def symOne : List (Char × BracketSymbol) :=
  [('*', .star),
   ('b', .aromatic .B),
   ('c', .aromatic .C),
   ('n', .aromatic .N),
   ('o', .aromatic .O),
   ('p', .aromatic .P),
   ('s', .aromatic .S),
   ('B', .element .B),
   ('C', .element .C),
   ('F', .element .F),
   ('H', .element .H),
   ('I', .element .I),
   ('K', .element .K),
   ('N', .element .N),
   ('O', .element .O),
   ('P', .element .P),
   ('S', .element .S),
   ('U', .element .U),
   ('V', .element .V),
   ('W', .element .W),
   ('Y', .element .Y)]

/-- two-letter rows of `read_symbol` -/

def symTwo : List (Char × Char × BracketSymbol) :=
  [('a', 's', .aromatic .As), ('s', 'e', .aromatic .Se), ('A', 'c', .element .Ac), ('A', 'g', .element .Ag),
   ('A', 'l', .element .Al), ('A', 'm', .element .Am), ('A', 'r', .element .Ar), ('A', 's', .element .As),
   ('A', 't', .element .At), ('A', 'u', .element .Au), ('B', 'a', .element .Ba), ('B', 'e', .element .Be),
   ('B', 'h', .element .Bh), ('B', 'i', .element .Bi), ('B', 'k', .element .Bk), ('B', 'r', .element .Br),
   ('C', 'a', .element .Ca), ('C', 'd', .element .Cd), ('C', 'e', .element .Ce), ('C', 'f', .element .Cf),
   ('C', 'l', .element .Cl), ('C', 'm', .element .Cm), ('C', 'n', .element .Cn), ('C', 'o', .element .Co),
   ('C', 'r', .element .Cr), ('C', 's', .element .Cs), ('C', 'u', .element .Cu), ('D', 'b', .element .Db),
   ('D', 's', .element .Ds), ('D', 'y', .element .Dy), ('E', 'r', .element .Er), ('E', 's', .element .Es),
   ('E', 'u', .element .Eu), ('F', 'e', .element .Fe), ('F', 'l', .element .Fl), ('F', 'm', .element .Fm),
   ('F', 'r', .element .Fr), ('G', 'a', .element .Ga), ('G', 'd', .element .Gd), ('G', 'e', .element .Ge),
   ('H', 'e', .element .He), ('H', 'f', .element .Hf), ('H', 'g', .element .Hg), ('H', 'o', .element .Ho),
   ('H', 's', .element .Hs), ('I', 'n', .element .In), ('I', 'r', .element .Ir), ('K', 'r', .element .Kr),
   ('L', 'a', .element .La), ('L', 'i', .element .Li), ('L', 'r', .element .Lr), ('L', 'u', .element .Lu),
   ('L', 'v', .element .Lv), ('M', 'c', .element .Mc), ('M', 'd', .element .Md), ('M', 'g', .element .Mg),
   ('M', 'n', .element .Mn), ('M', 'o', .element .Mo), ('M', 't', .element .Mt), ('N', 'a', .element .Na),
   ('N', 'b', .element .Nb), ('N', 'd', .element .Nd), ('N', 'e', .element .Ne), ('N', 'h', .element .Nh),
   ('N', 'i', .element .Ni), ('N', 'o', .element .No), ('N', 'p', .element .Np), ('O', 'g', .element .Og),
   ('O', 's', .element .Os), ('P', 'a', .element .Pa), ('P', 'b', .element .Pb), ('P', 'd', .element .Pd),
   ('P', 'm', .element .Pm), ('P', 'o', .element .Po), ('P', 'r', .element .Pr), ('P', 't', .element .Pt),
   ('P', 'u', .element .Pu), ('R', 'a', .element .Ra), ('R', 'b', .element .Rb), ('R', 'e', .element .Re),
   ('R', 'f', .element .Rf), ('R', 'g', .element .Rg), ('R', 'h', .element .Rh), ('R', 'n', .element .Rn),
   ('R', 'u', .element .Ru), ('S', 'b', .element .Sb), ('S', 'c', .element .Sc), ('S', 'e', .element .Se),
   ('S', 'g', .element .Sg), ('S', 'i', .element .Si), ('S', 'm', .element .Sm), ('S', 'n', .element .Sn),
   ('S', 'r', .element .Sr), ('T', 'a', .element .Ta), ('T', 'b', .element .Tb), ('T', 'c', .element .Tc),
   ('T', 'e', .element .Te), ('T', 'h', .element .Th), ('T', 'i', .element .Ti), ('T', 'l', .element .Tl),
   ('T', 'm', .element .Tm), ('T', 's', .element .Ts), ('X', 'e', .element .Xe), ('Y', 'b', .element .Yb),
   ('Z', 'n', .element .Zn), ('Z', 'r', .element .Zr)]

def lookup1 (c : Char) : List (Char × BracketSymbol) → Option BracketSymbol
  | [] => none
  | (c', x) :: t => if c = c' then some x else lookup1 c t

def lookup2 (c d : Char) : List (Char × Char × BracketSymbol) → Option BracketSymbol
  | [] => none
  | (c', d', x) :: t => if c = c' ∧ d = d' then some x else lookup2 c d t

/-- `read_symbol`: every arm pops the first character, peeks the second; a listed second letter
    gives the two-letter symbol, otherwise the arm's default (a one-letter symbol, or an error
    at the second character). -/
def readSymbol : Str → Res BracketSymbol
  | [] => .fail []
  | c :: r =>
    if symFirst.contains c then
      match r with
      | [] => (match lookup1 c symOne with | some x => .ok x [] | none => .fail [])
      | d :: r' =>
        match lookup2 c d symTwo with
        | some x => .ok x r'
        | none => (match lookup1 c symOne with | some x => .ok x (d :: r') | none => .fail (d :: r'))
    else .fail (c :: r)

/-- configurations by family and number (index into `Configuration.all`) -/
def Configuration.al? (n : Nat) : Option Configuration := if 1 ≤ n ∧ n ≤ 2 then Configuration.all[n - 1]? else none
def Configuration.oh? (n : Nat) : Option Configuration := if 1 ≤ n ∧ n ≤ 30 then Configuration.all[1 + n]? else none
def Configuration.sp? (n : Nat) : Option Configuration := if 1 ≤ n ∧ n ≤ 3 then Configuration.all[31 + n]? else none
def Configuration.tb? (n : Nat) : Option Configuration := if 1 ≤ n ∧ n ≤ 20 then Configuration.all[34 + n]? else none
def Configuration.th? (n : Nat) : Option Configuration := if 1 ≤ n ∧ n ≤ 2 then Configuration.all[54 + n]? else none

def cfgRes (o : Option Configuration) (rest at_ : Str) : Res (Option Configuration) :=
  match o with
  | some c => .ok (some c) rest
  | none => .fail at_

/-- `tetrahedral`, `allene`, `square_planar`: one digit 1‥max, peeked then popped -/
def readCfgDigit (f : Nat → Option Configuration) : Str → Res (Option Configuration)
  | [] => .fail []
  | c :: r => if isDigit c then cfgRes (f (digitVal c)) r (c :: r) else .fail (c :: r)

/-- `trigonal_bipyramidal` / `octahedral` (after fix D6: the first digit is peeked and popped only
    on a match, so a wrong character is reported at its own position).
    `tens` is the largest first digit that may take a second digit `0‥9`; `top` is the first digit
    that may only be followed by `0` (TB: tens = 1, top = 2; OH: tens = 2, top = 3). -/
def readCfgTwoDigit (f : Nat → Option Configuration) (tens top : Nat) : Str → Res (Option Configuration)
  | [] => .fail []
  | c :: r =>
    if isDigit c && digitVal c ≠ 0 then
      let d := digitVal c
      if d ≤ tens then
        match r with
        | e :: r' => if isDigit e then cfgRes (f (10 * d + digitVal e)) r' (c :: r) else cfgRes (f d) r (c :: r)
        | [] => cfgRes (f d) r (c :: r)
      else if d = top then
        match r with
        | '0' :: r' => cfgRes (f (10 * d)) r' (c :: r)
        | _ => cfgRes (f d) r (c :: r)
      else cfgRes (f d) r (c :: r)
    else .fail (c :: r)

/-- `read_configuration` -/
def readConfiguration : Str → Res (Option Configuration)
  | '@' :: r =>
    match r with
    | '@' :: r' => .ok (some .TH2) r'
    | 'A' :: r' => (match r' with
      | 'L' :: r'' => readCfgDigit Configuration.al? r''
      | _ => .fail r')
    | 'O' :: r' => (match r' with
      | 'H' :: r'' => readCfgTwoDigit Configuration.oh? 2 3 r''
      | _ => .fail r')
    | 'S' :: r' => (match r' with
      | 'P' :: r'' => readCfgDigit Configuration.sp? r''
      | _ => .fail r')
    | 'T' :: r' => (match r' with
      | 'B' :: r'' => readCfgTwoDigit Configuration.tb? 1 2 r''
      | 'H' :: r'' => readCfgDigit Configuration.th? r''
      | _ => .fail r')
    | _ => .ok (some .TH1) r
  | s => .ok none s

/-- `read_hcount` -/
def readHcount : Str → Option VirtualHydrogen × Str
  | 'H' :: r =>
    match r with
    | d :: r' =>
      if h : isDigit d then (some ⟨digitVal d, by simp [isDigit, digitVal] at *; omega⟩, r')
      else (some ⟨1, by omega⟩, r)
    | [] => (some ⟨1, by omega⟩, [])
  | s => (none, s)

/-- `fifteen` (after fix D4: the second digit may be `0`) -/
def readFifteen : Str → Option (Nat × Str)
  | [] => none
  | c :: r =>
    if c = '1' then
      match r with
      | d :: r' => if isDigit d && digitVal d ≤ 5 then some (10 + digitVal d, r') else some (1, r)
      | [] => some (1, [])
    else if isDigit c && 2 ≤ digitVal c then some (digitVal c, r)
    else none

def mkCharge (z : Int) : Option Charge := Charge.ofInt? z

/-- `read_charge`; the `expect("charge")` conversions are modelled by `Charge.ofInt?`, `none`
    standing for the panic (unreachable: see `Props/C06`). -/
def readCharge : Str → Res (Option Charge)
  | '+' :: r =>
    (match readFifteen r with
    | some (v, r') => (match mkCharge v with | some c => .ok (some c) r' | none => .panic "read_charge.rs:expect(charge)")
    | none => match r with
      | '+' :: r' => .ok (mkCharge 2) r'
      | _ => .ok (mkCharge 1) r)
  | '-' :: r =>
    (match readFifteen r with
    | some (v, r') => (match mkCharge (-(v : Int)) with | some c => .ok (some c) r' | none => .panic "read_charge.rs:expect(charge)")
    | none => match r with
      | '-' :: r' => .ok (mkCharge (-2)) r'
      | _ => .ok (mkCharge (-1)) r)
  | s => .ok none s

/-- up to `n` leading digits: (value, digits read, rest) -/
def takeDigits : Nat → Nat → Str → Nat × Str
  | 0, acc, s => (acc, s)
  | _ + 1, acc, [] => (acc, [])
  | n + 1, acc, c :: r => if isDigit c then takeDigits n (10 * acc + digitVal c) r else (acc, c :: r)

/-- `read_isotope`: up to three digits -/
def readIsotope : Str → Option Number × Str
  | [] => (none, [])
  | c :: r =>
    if isDigit c then
      let p := takeDigits 2 (digitVal c) r
      (Number.ofNat? p.1, p.2)
    else (none, c :: r)

/-- `read_map`: `:` then one to three digits -/
def readMap : Str → Res (Option Number)
  | ':' :: r =>
    (match r with
    | [] => .fail []
    | c :: r' =>
      if isDigit c then
        let p := takeDigits 2 (digitVal c) r'
        .ok (Number.ofNat? p.1) p.2
      else .fail (c :: r'))
  | s => .ok none s

/-- `read_bracket` -/
def readBracket : Str → Res AtomKind
  | '[' :: r =>
    let (isotope, r1) := readIsotope r
    match readSymbol r1 with
    | .fail a => .fail a
    | .panic p => .panic p
    | .absent => .fail r1
    | .ok symbol r2 =>
      match readConfiguration r2 with
      | .fail a => .fail a
      | .panic p => .panic p
      | .absent => .fail r2
      | .ok configuration r3 =>
        let (hcount, r4) := readHcount r3
        match readCharge r4 with
        | .fail a => .fail a
        | .panic p => .panic p
        | .absent => .fail r4
        | .ok charge r5 =>
          match readMap r5 with
          | .fail a => .fail a
          | .panic p => .panic p
          | .absent => .fail r5
          | .ok map r6 =>
            match r6 with
            | ']' :: r7 => .ok (.bracket ⟨isotope, symbol, configuration, hcount, charge, map⟩) r7
            | _ => .fail r6
  | _ => .absent

/-- `read_atom`: organic, else bracket, else star -/
def readAtom (s : Str) : Res AtomKind :=
  match readOrganic s with
  | .ok k r => .ok k r
  | .fail a => .fail a
  | .panic p => .panic p
  | .absent =>
    match readBracket s with
    | .ok k r => .ok k r
    | .fail a => .fail a
    | .panic p => .panic p
    | .absent =>
      match s with
      | '*' :: r => .ok .star r
      | _ => .absent

end Purr
