/-
  Purr.Model.Valence — `Atom::subvalence`, `Atom::suppressed_hydrogens` (src/graph/atom.rs, after
  fix D15: the bond-order sum is accumulated without wrap-around), `AtomKind::targets`,
  `AtomKind::debracket` (src/feature/atom_kind.rs, after fix D14: only the target the
  implicit-hydrogen rule selects is accepted).
-/
import Purr.Model.Builder
namespace Purr

/-- `elemental_targets` -/
def elementalTargets (e : Element) (q : Option Charge) : List Nat :=
  let z : Int := match q with | none => 0 | some c => c.val
  match e with
  | .B => if z = -3 then [2] else if z = -2 then [3, 5] else if z = -1 then [4] else if z = 0 then [3] else []
  | .C => if z = -2 then [2] else if z = -1 then [3, 5] else if z = 1 then [3] else if z = 0 then [4] else []
  | .N => if z = 0 then [3, 5] else if z = 1 then [4] else []
  | .O => if z = 0 then [2] else if z = 1 then [3, 5] else []
  | .P => if z = -1 then [2, 4, 6] else if z = 0 then [3, 5] else []
  | .As => if z = -1 then [2, 4, 6] else if z = 0 then [3, 5] else []
  | .S => if z = 0 then [2, 4, 6] else if z = 1 then [3, 5] else []
  | .Se => if z = 0 then [2, 4, 6] else if z = 1 then [3, 5] else []
  | _ => []

/-- `AtomKind::targets` -/
def AtomKind.targets : AtomKind → List Nat
  | .star => []
  | .aliphatic a => a.targets
  | .aromatic a => a.targets
  | .bracket b =>
    match b.symbol with
    | .star => []
    | .aromatic a => elementalTargets a.toElement b.charge
    | .element e => elementalTargets e b.charge

def hcountOf (k : AtomKind) : Nat :=
  match k with
  | .bracket b => (match b.hcount with | some h => h.val | none => 0)
  | _ => 0

def orderSum (bs : List Bond) : Nat := (bs.map (fun b => b.kind.order)).sum

/-- `Atom::new` -/
def Atom.new (k : AtomKind) : Atom := ⟨k, []⟩

/-- `Atom::is_aromatic` -/
def Atom.isAromatic (a : Atom) : Bool := a.kind.isAromatic

/-- `Bond::is_aromatic` -/
def Bond.isAromatic (b : Bond) : Bool := b.kind == .aromatic

/-- `Bond::is_directional` -/
def Bond.isDirectional (b : Bond) : Bool := b.kind == .up || b.kind == .down

/-- `Atom::subvalence` -/
def Atom.subvalence (a : Atom) : Nat :=
  let valence := hcountOf a.kind + orderSum a.bonds
  match a.kind.targets.find? (fun t => t ≥ valence) with
  | some t => t - valence
  | none => 0

/-- `Atom::suppressed_hydrogens` -/
def Atom.suppressedHydrogens (a : Atom) : Nat :=
  match a.kind with
  | .star => 0
  | .aromatic _ => if a.subvalence > 1 then a.subvalence - 1 else 0
  | .aliphatic _ => a.subvalence
  | .bracket _ => hcountOf a.kind

inductive Debracket
  | ok (k : AtomKind)
  /-- `checked_add(..).expect("valence")`: bond-order sum + hydrogen count exceeds a byte -/
  | panic
  deriving DecidableEq, Repr

/-- `AtomKind::debracket` with `bond_order_sum : u8` -/
def AtomKind.debracket (k : AtomKind) (bos : Nat) : Debracket :=
  match k with
  | .bracket b =>
    if b.isotope.isSome || b.configuration.isSome || b.charge.isSome || b.map.isSome then .ok k
    else
      let h := hcountOf (.bracket b)
      match b.symbol with
      | .star => if h = 0 then .ok .star else .ok k
      | .aromatic a =>
        if bos + h > 255 then .panic
        else
          match Aromatic.ofBracketAromatic? a with
          | none => .ok k
          | some ar =>
            let allowance := if h = 0 then 0 else 1
            match ar.targets.find? (fun t => t ≥ bos) with
            | some t => if bos + h = t - allowance then .ok (.aromatic ar) else .ok k
            | none => .ok k
      | .element e =>
        if bos + h > 255 then .panic
        else
          match Aliphatic.ofElement? e with
          | none => .ok k
          | some al =>
            match al.targets.find? (fun t => t ≥ bos) with
            | some t => if bos + h = t then .ok (.aliphatic al) else .ok k
            | none => .ok k
  | _ => .ok k

end Purr
