/-
  Purr.Model.Event — the `Follower` events (src/walk/follower.rs) and the protocol state machine
  that the trait's documentation describes (a root first; extend/join need a head; pop d needs
  1 ≤ d < path length).
-/
import Purr.Model.Feature
namespace Purr

inductive Event
  | root (k : AtomKind)
  | extend (b : BondKind) (k : AtomKind)
  | join (b : BondKind) (r : Rnum)
  | pop (d : Nat)
  deriving DecidableEq, Repr

/-- protocol state: `none` = no atom yet, `some n` = current path has `n ≥ 1` atoms -/
def stepProto : Option Nat → Event → Option (Option Nat)
  | none, .root _ => some (some 1)
  | some n, .root _ => some (some (n + 1))
  | some n, .extend _ _ => some (some (n + 1))
  | some n, .join _ _ => some (some n)
  | some n, .pop d => if 1 ≤ d ∧ d < n then some (some (n - d)) else none
  | none, _ => none

def protoRun : Option Nat → List Event → Option (Option Nat)
  | s, [] => some s
  | s, e :: es => match stepProto s e with
    | some s' => protoRun s' es
    | none => none

/-- every event is legal at the point where it is made (the empty history is conformant) -/
def Conformant (es : List Event) : Prop := (protoRun none es).isSome

/-- conformant and non-empty: the history a complete molecule produces -/
def ConformantNE (es : List Event) : Prop := ∃ n, protoRun none es = some (some n)

instance (es : List Event) : Decidable (Conformant es) := by unfold Conformant; infer_instance

/-- index of the first illegal event, if any (used by the driver and the online oracle) -/
def firstViolation : Option Nat → Nat → List Event → Option Nat
  | _, _, [] => none
  | s, i, e :: es => match stepProto s e with
    | some s' => firstViolation s' (i + 1) es
    | none => some i

end Purr
