/-
  Purr.Model.Walk — `walk` of src/walk/walk.rs on the repaired tree.

  fix D10: the adjacency list is validated against the definition of a well-formed simple graph
           before the traversal starts (`validate`);
  fix D11: a child entered through the bond at index `i` has its `@`/`@@` mark flipped iff
           `i + (1 if it has a virtual hydrogen)` is odd.

  `atoms: HashMap<usize, Atom>` from which visited atoms are removed is the list `visited`
  of removed ids; the explicit `stack` and `chain` vectors are lists with the top first.
  The traversal loop is structurally recursive on fuel; `walk` supplies enough
  (`Lemmas/WalkPanicL.lean`: the fuel is never exhausted on a well-formed graph), fuel exhaustion is a distinct `panic "fuel"` verdict.
-/
import Purr.Model.Builder
import Purr.Model.Pool
namespace Purr

inductive WalkError
  | halfBond (sid tid : Nat)
  | duplicateBond (sid tid : Nat)
  | unknownTarget (sid tid : Nat)
  | incompatibleBond (sid tid : Nat)
  | loop (sid : Nat)
  deriving DecidableEq, Repr

inductive WalkVerdict
  | ok
  | err (e : WalkError)
  | panic (site : String)
  deriving DecidableEq, Repr

def countTo (bs : List Bond) (t : Nat) : Nat := (bs.filter (fun b => b.tid == t)).length

/-- check one half-bond `sid → b` of `g` -/
def checkBond (g : Graph) (sid : Nat) (b : Bond) : Option WalkError :=
  if b.tid ≥ g.length then some (.unknownTarget sid b.tid)
  else if b.tid = sid then some (.loop sid)
  else
    match g[sid]?, g[b.tid]? with
    | some s, some t =>
      if countTo s.bonds b.tid > 1 then some (.duplicateBond sid b.tid)
      else
        -- the counterparts on the other atom: none, exactly one, or several
        match t.bonds.filter (fun o => o.tid == sid) with
        | [] => some (.halfBond sid b.tid)
        | [back] => if b.kind ≠ back.kind.reverse then some (.incompatibleBond b.tid sid) else none
        | _ => some (.duplicateBond sid b.tid)
    | _, _ => some (.unknownTarget sid b.tid)

def checkBonds (g : Graph) (sid : Nat) : List Bond → Option WalkError
  | [] => none
  | b :: bs => match checkBond g sid b with
    | some e => some e
    | none => checkBonds g sid bs

def checkAtoms (g : Graph) : Nat → List Atom → Option WalkError
  | _, [] => none
  | sid, a :: as => match checkBonds g sid a.bonds with
    | some e => some e
    | none => checkAtoms g (sid + 1) as

/-- the validation pre-pass: first defect in atom order, bond order -/
def validate (g : Graph) : Option WalkError := checkAtoms g 0 g

def hasH (k : AtomKind) : Bool := hcountOf' k != 0
where hcountOf' : AtomKind → Nat
  | .bracket b => (match b.hcount with | some h => h.val | none => 0)
  | _ => 0

/-- unconditional flip of the `@`/`@@` mark -/
def AtomKind.flipMark : AtomKind → AtomKind
  | .bracket b => (match b.configuration with
    | some c => .bracket { b with configuration := some c.flip }
    | none => .bracket b)
  | k => k

structure WState where
  visited : List Nat
  /-- top first -/
  stack : List (Nat × Bond)
  /-- head first -/
  chain : List Nat
  pool : Pool
  deriving Repr

/-- pop the chain until its head is `sid`; `none` = `expect("chain head")` -/
def unwind (sid : Nat) : List Nat → Nat → Option (List Nat × Nat)
  | [], _ => none
  | h :: t, n => if h = sid then some (h :: t, n) else unwind sid t (n + 1)

/-- processing of a newly reached child: (kind after parity flips, back bonds found, pushes) -/
def scanChild (sid tid : Nat) (k : AtomKind) : List Bond → Nat → AtomKind × List Bond × List (Nat × Bond)
  | [], _ => (k, [], [])
  | o :: os, i =>
    -- Rust iterates in reverse; flips commute, so the forward fold gives the same kind
    let (k', backs, pushes) := scanChild sid tid k os (i + 1)
    if o.tid = sid then
      ((if (i + (if hasH k then 1 else 0)) % 2 = 1 then k'.flipMark else k'), o :: backs, pushes)
    else (k', backs, (tid, o) :: pushes)

inductive Step
  | cont (s : WState) (evs : List Event)
  | err (e : WalkError) (evs : List Event)
  /-- a panic site reached, after these events had been handed to the follower -/
  | panic (site : String) (evs : List Event)

/-- one iteration of the `while let Some((sid, bond)) = stack.pop()` loop -/
def wkStep (g : Graph) (s : WState) (sid : Nat) (bond : Bond) (rest : List (Nat × Bond)) : Step :=
  if bond.tid ≥ g.length then .err (.unknownTarget sid bond.tid) []
  else if bond.tid = sid then .err (.loop sid) []
  else
    match unwind sid s.chain 0 with
    | none => .panic "walk.rs:chain head" []
    | some (chain, popcount) =>
      let pops : List Event := if popcount > 0 then [.pop popcount] else []
      if s.visited.contains bond.tid then
        match s.pool.hit (sid, bond.tid) with
        | .ok r pool => .cont { s with stack := rest, chain := chain, pool := pool } (pops ++ [.join bond.kind r])
        | .panic _ _ => .panic "join_pool.rs:rnum" pops
      else
        match g[bond.tid]? with
        | none => .panic "walk.rs:atoms" pops
        | some child =>
          let (kind, backs, pushes) := scanChild sid bond.tid child.kind child.bonds 0
          match backs with
          | [] => .err (.halfBond sid bond.tid) pops
          | [back] =>
            if bond.kind ≠ back.kind.reverse then .err (.incompatibleBond bond.tid sid) pops
            else .cont { s with visited := bond.tid :: s.visited, stack := pushes ++ rest, chain := bond.tid :: chain }
                   (pops ++ [.extend bond.kind kind])
          | _ => .err (.duplicateBond sid bond.tid) pops

/-- the `while` loop of `walk_root` -/
def rootLoop (g : Graph) : Nat → WState → List Event × WalkVerdict × WState
  | 0, s => ([], .panic "fuel", s)
  | fuel + 1, s =>
    match s.stack with
    | [] => ([], .ok, s)
    | (sid, bond) :: rest =>
      match wkStep g s sid bond rest with
      | .err e evs => (evs, .err e, s)
      | .panic p evs => (evs, .panic p, s)
      | .cont s' evs =>
        let (es, v, s'') := rootLoop g fuel s'
        (evs ++ es, v, s'')

/-- the `for id in ids` loop of `walk` -/
def compLoop (g : Graph) (fuel : Nat) : List Nat → WState → List Event × WalkVerdict
  | [], _ => ([], .ok)
  | id :: ids, s =>
    if s.visited.contains id then compLoop g fuel ids s
    else
      match g[id]? with
      | none => ([], .panic "walk.rs:atoms")
      | some root =>
        let s0 : WState := { s with visited := id :: s.visited, stack := root.bonds.map (fun b => (id, b)), chain := [id] }
        let (es, v, s1) := rootLoop g fuel s0
        match v with
        | .ok => let (es', v') := compLoop g fuel ids s1; (.root root.kind :: es ++ es', v')
        | v => (.root root.kind :: es, v)

def walkFuel (g : Graph) : Nat := (g.map (fun a => a.bonds.length + 1)).sum + 1

/-- `walk`: events emitted and verdict -/
def walk (g : Graph) : List Event × WalkVerdict :=
  match validate g with
  | some e => ([], .err e)
  | none => compLoop g (walkFuel g) (List.range g.length) ⟨[], [], [], .init⟩

end Purr
