/-
  Purr.Model.Pool — `JoinPool` of src/graph/join_pool.rs (after fix D13: a number is drawn only
  when a pair is opened).  `borrowed: HashMap<Pair,u16>` is an association list keyed by the
  unordered pair; `replaced: BinaryHeap<Index>` (a min-heap through the reversed `Ord`) is a list
  from which the minimum is extracted.
-/
import Purr.Model.Feature
namespace Purr

structure Pool where
  counter : Nat
  borrowed : List ((Nat × Nat) × Nat)
  replaced : List Nat
  deriving DecidableEq, Repr

def Pool.init : Pool := ⟨1, [], []⟩

/-- `impl PartialEq for Pair` -/
def pairEq (p q : Nat × Nat) : Bool := (p.1 == q.1 && p.2 == q.2) || (p.1 == q.2 && p.2 == q.1)

def Pool.find (p : Pool) (ab : Nat × Nat) : Option Nat :=
  (p.borrowed.find? (fun e => pairEq e.1 ab)).map (·.2)

/-- least element of a non-empty list, with the list without (one occurrence of) it -/
def minOf : List Nat → Option Nat
  | [] => none
  | x :: xs => match minOf xs with
    | none => some x
    | some m => some (min x m)

inductive Hit
  | ok (r : Rnum) (p : Pool)
  /-- `expect("rnum")`: the number does not fit an `Rnum` (≥ 100) -/
  | panic (n : Nat) (p : Pool)
  deriving Repr

/-- `JoinPool::hit`, returning the raw number and the new pool -/
def Pool.hitNat (p : Pool) (ab : Nat × Nat) : Nat × Pool :=
  match p.find ab with
  | some n =>
    (n, { p with borrowed := p.borrowed.filter (fun e => !pairEq e.1 ab), replaced := n :: p.replaced })
  | none =>
    match minOf p.replaced with
    | some m => (m, { p with borrowed := (ab, m) :: p.borrowed, replaced := p.replaced.erase m })
    | none => (p.counter, { p with borrowed := (ab, p.counter) :: p.borrowed, counter := p.counter + 1 })

def Pool.hit (p : Pool) (ab : Nat × Nat) : Hit :=
  let (n, p') := p.hitNat ab
  match Rnum.ofNat? n with
  | some r => .ok r p'
  | none => .panic n p'

end Purr
