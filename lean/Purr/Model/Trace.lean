/-
  Purr.Model.Trace — `Trace` of src/read/trace.rs, folded over the located events of `readL`
  exactly as read.rs calls it.  `HashMap`s are association lists, newest binding first
  (insert overrides), used by key only.
-/
import Purr.Model.Reader
namespace Purr

structure Open where
  sid : Nat
  bondCursor : Nat
  rnumCursor : Nat × Nat
  deriving DecidableEq, Repr

structure TState where
  /-- in id order -/
  atoms : List (Nat × Nat)
  bonds : List ((Nat × Nat) × Nat)
  /-- head first -/
  stack : List Nat
  opens : List (Rnum × Open)
  /-- in token order -/
  rnums : List (Nat × Nat)
  deriving DecidableEq, Repr

def TState.init : TState := ⟨[], [], [], [], []⟩

/-- one located event, with `n` the total input length (cursor = n − remaining) -/
def tstep (n : Nat) (t : TState) : LEvent → Option TState
  | .root _ a e =>
    some { t with stack := t.atoms.length :: t.stack, atoms := t.atoms ++ [(n - a, n - e)] }
  | .extend b _ a e =>
    match t.stack with
    | [] => none
    | sid :: _ =>
      let tid := t.atoms.length
      let bc := if b = .elided then n - a else n - a - 1
      some { t with
        bonds := ((tid, sid), bc) :: ((sid, tid), bc) :: t.bonds
        atoms := t.atoms ++ [(n - a, n - e)]
        stack := tid :: t.stack }
  | .join _ r bc a e =>
    match t.stack with
    | [] => none
    | sid :: _ =>
      match t.opens.lookup r with
      | some o =>
        some { t with
          opens := t.opens.filter (fun p => p.1 != r)
          bonds := ((o.sid, sid), o.bondCursor) :: ((sid, o.sid), n - bc) :: t.bonds
          rnums := t.rnums ++ [(n - a, n - e)] }
      | none =>
        some { t with
          opens := (r, ⟨sid, n - bc, (n - a, n - e)⟩) :: t.opens
          rnums := t.rnums ++ [(n - a, n - e)] }
  | .pop d => if d ≥ t.stack.length then none else some { t with stack := t.stack.drop d }

def trun (n : Nat) : TState → List LEvent → Option TState
  | t, [] => some t
  | t, e :: es => match tstep n t e with
    | some t' => trun n t' es
    | none => none

def TState.atom (t : TState) (i : Nat) : Option (Nat × Nat) := t.atoms[i]?
def TState.bond (t : TState) (sid tid : Nat) : Option Nat := t.bonds.lookup (sid, tid)
def TState.rnum (t : TState) (k : Nat) : Option (Nat × Nat) := t.rnums[k]?

/-- the trace after reading `s` (events up to the error, if any) -/
def trace? (s : Str) : Option TState := trun s.length .init (readL s).1

end Purr
