/-
  Purr.Model.Feature — feature enums of rapodaca/purr and their text forms.
  Mirrors src/feature/*.rs (Display impls, TryFrom/Into tables, targets, reverse).
  Import-free (core Lean only) so that the driver links as a lean_exe.
  Strings are `List Char` (the Rust scanner is a Vec<char>; cursors count chars).
-/
namespace Purr

abbrev Str := List Char

/-- `src/feature/element.rs`: 118 elements in declaration order (index = Rust discriminant). -/
inductive Element
  | H | He | Li | Be | B | C | N | O | F | Ne
  | Na | Mg | Al | Si | P | S | Cl | Ar | K | Ca
  | Sc | Ti | V | Cr | Mn | Fe | Co | Ni | Cu | Zn
  | Ga | Ge | As | Se | Br | Kr | Rb | Sr | Y | Zr
  | Nb | Mo | Tc | Ru | Rh | Pd | Ag | Cd | In | Sn
  | Sb | Te | I | Xe | Cs | Ba | La | Ce | Pr | Nd
  | Pm | Sm | Eu | Gd | Tb | Dy | Ho | Er | Tm | Yb
  | Lu | Hf | Ta | W | Re | Os | Ir | Pt | Au | Hg
  | Tl | Pb | Bi | Po | At | Rn | Fr | Ra | Ac | Th
  | Pa | U | Np | Pu | Am | Cm | Bk | Cf | Es | Fm
  | Md | No | Lr | Rf | Db | Sg | Bh | Hs | Mt | Ds
  | Rg | Cn | Nh | Fl | Mc | Lv | Ts | Og
  deriving DecidableEq, Repr

def Element.all : List Element :=
  [.H, .He, .Li, .Be, .B, .C, .N, .O, .F, .Ne,
   .Na, .Mg, .Al, .Si, .P, .S, .Cl, .Ar, .K, .Ca,
   .Sc, .Ti, .V, .Cr, .Mn, .Fe, .Co, .Ni, .Cu, .Zn,
   .Ga, .Ge, .As, .Se, .Br, .Kr, .Rb, .Sr, .Y, .Zr,
   .Nb, .Mo, .Tc, .Ru, .Rh, .Pd, .Ag, .Cd, .In, .Sn,
   .Sb, .Te, .I, .Xe, .Cs, .Ba, .La, .Ce, .Pr, .Nd,
   .Pm, .Sm, .Eu, .Gd, .Tb, .Dy, .Ho, .Er, .Tm, .Yb,
   .Lu, .Hf, .Ta, .W, .Re, .Os, .Ir, .Pt, .Au, .Hg,
   .Tl, .Pb, .Bi, .Po, .At, .Rn, .Fr, .Ra, .Ac, .Th,
   .Pa, .U, .Np, .Pu, .Am, .Cm, .Bk, .Cf, .Es, .Fm,
   .Md, .No, .Lr, .Rf, .Db, .Sg, .Bh, .Hs, .Mt, .Ds,
   .Rg, .Cn, .Nh, .Fl, .Mc, .Lv, .Ts, .Og]

/-- `impl Display for Element` (after fix D1: `Cs` prints "Cs"). -/
def Element.text : Element → Str
  | .Ac => ['A', 'c']
  | .Ag => ['A', 'g']
  | .Al => ['A', 'l']
  | .Am => ['A', 'm']
  | .Ar => ['A', 'r']
  | .As => ['A', 's']
  | .At => ['A', 't']
  | .Au => ['A', 'u']
  | .B => ['B']
  | .Ba => ['B', 'a']
  | .Be => ['B', 'e']
  | .Bh => ['B', 'h']
  | .Bi => ['B', 'i']
  | .Bk => ['B', 'k']
  | .Br => ['B', 'r']
  | .C => ['C']
  | .Ca => ['C', 'a']
  | .Cd => ['C', 'd']
  | .Ce => ['C', 'e']
  | .Cf => ['C', 'f']
  | .Cl => ['C', 'l']
  | .Cm => ['C', 'm']
  | .Cn => ['C', 'n']
  | .Co => ['C', 'o']
  | .Cr => ['C', 'r']
  | .Cs => ['C', 's']
  | .Cu => ['C', 'u']
  | .Db => ['D', 'b']
  | .Ds => ['D', 's']
  | .Dy => ['D', 'y']
  | .Er => ['E', 'r']
  | .Es => ['E', 's']
  | .Eu => ['E', 'u']
  | .F => ['F']
  | .Fe => ['F', 'e']
  | .Fl => ['F', 'l']
  | .Fm => ['F', 'm']
  | .Fr => ['F', 'r']
  | .Ga => ['G', 'a']
  | .Gd => ['G', 'd']
  | .Ge => ['G', 'e']
  | .H => ['H']
  | .He => ['H', 'e']
  | .Hf => ['H', 'f']
  | .Hg => ['H', 'g']
  | .Ho => ['H', 'o']
  | .Hs => ['H', 's']
  | .I => ['I']
  | .In => ['I', 'n']
  | .Ir => ['I', 'r']
  | .K => ['K']
  | .Kr => ['K', 'r']
  | .La => ['L', 'a']
  | .Li => ['L', 'i']
  | .Lr => ['L', 'r']
  | .Lu => ['L', 'u']
  | .Lv => ['L', 'v']
  | .Mc => ['M', 'c']
  | .Md => ['M', 'd']
  | .Mg => ['M', 'g']
  | .Mn => ['M', 'n']
  | .Mo => ['M', 'o']
  | .Mt => ['M', 't']
  | .N => ['N']
  | .Na => ['N', 'a']
  | .Nb => ['N', 'b']
  | .Nd => ['N', 'd']
  | .Ne => ['N', 'e']
  | .Nh => ['N', 'h']
  | .Ni => ['N', 'i']
  | .No => ['N', 'o']
  | .Np => ['N', 'p']
  | .O => ['O']
  | .Og => ['O', 'g']
  | .Os => ['O', 's']
  | .P => ['P']
  | .Pa => ['P', 'a']
  | .Pb => ['P', 'b']
  | .Pd => ['P', 'd']
  | .Pm => ['P', 'm']
  | .Po => ['P', 'o']
  | .Pr => ['P', 'r']
  | .Pt => ['P', 't']
  | .Pu => ['P', 'u']
  | .Ra => ['R', 'a']
  | .Rb => ['R', 'b']
  | .Re => ['R', 'e']
  | .Rf => ['R', 'f']
  | .Rg => ['R', 'g']
  | .Rh => ['R', 'h']
  | .Rn => ['R', 'n']
  | .Ru => ['R', 'u']
  | .S => ['S']
  | .Sb => ['S', 'b']
  | .Sc => ['S', 'c']
  | .Se => ['S', 'e']
  | .Sg => ['S', 'g']
  | .Si => ['S', 'i']
  | .Sm => ['S', 'm']
  | .Sn => ['S', 'n']
  | .Sr => ['S', 'r']
  | .Ta => ['T', 'a']
  | .Tb => ['T', 'b']
  | .Tc => ['T', 'c']
  | .Te => ['T', 'e']
  | .Th => ['T', 'h']
  | .Ti => ['T', 'i']
  | .Tl => ['T', 'l']
  | .Tm => ['T', 'm']
  | .Ts => ['T', 's']
  | .U => ['U']
  | .V => ['V']
  | .W => ['W']
  | .Xe => ['X', 'e']
  | .Y => ['Y']
  | .Yb => ['Y', 'b']
  | .Zn => ['Z', 'n']
  | .Zr => ['Z', 'r']

/-- `src/feature/bracket_aromatic.rs` (declaration order). -/
inductive BracketAromatic | B | C | N | O | S | P | Se | As
  deriving DecidableEq, Repr

def BracketAromatic.all : List BracketAromatic := [.B, .C, .N, .O, .S, .P, .Se, .As]

def BracketAromatic.text : BracketAromatic → Str
  | .B => ['b'] | .C => ['c'] | .N => ['n'] | .O => ['o'] | .S => ['s'] | .P => ['p']
  | .Se => ['s', 'e'] | .As => ['a', 's']

/-- `impl Into<Element> for &BracketAromatic` -/
def BracketAromatic.toElement : BracketAromatic → Element
  | .As => .As | .B => .B | .C => .C | .N => .N | .O => .O | .P => .P | .S => .S | .Se => .Se

/-- `src/feature/aromatic.rs` (declaration order). -/
inductive Aromatic | B | C | N | O | P | S
  deriving DecidableEq, Repr

def Aromatic.all : List Aromatic := [.B, .C, .N, .O, .P, .S]

def Aromatic.text : Aromatic → Str
  | .B => ['b'] | .C => ['c'] | .N => ['n'] | .O => ['o'] | .P => ['p'] | .S => ['s']

def Aromatic.targets : Aromatic → List Nat
  | .B => [3] | .C => [4] | .N => [3, 5] | .O => [2] | .P => [3, 5] | .S => [2, 4, 6]

/-- `impl TryFrom<&BracketAromatic> for Aromatic` -/
def Aromatic.ofBracketAromatic? : BracketAromatic → Option Aromatic
  | .B => some .B | .C => some .C | .N => some .N | .O => some .O | .P => some .P | .S => some .S
  | _ => none

/-- `src/feature/aliphatic.rs` (declaration order). -/
inductive Aliphatic | B | C | N | O | S | P | F | Cl | Br | I | At | Ts
  deriving DecidableEq, Repr

def Aliphatic.all : List Aliphatic := [.B, .C, .N, .O, .S, .P, .F, .Cl, .Br, .I, .At, .Ts]

def Aliphatic.text : Aliphatic → Str
  | .B => ['B'] | .C => ['C'] | .N => ['N'] | .O => ['O'] | .S => ['S'] | .P => ['P'] | .F => ['F']
  | .Cl => ['C', 'l'] | .Br => ['B', 'r'] | .I => ['I'] | .At => ['A', 't'] | .Ts => ['T', 's']

def Aliphatic.targets : Aliphatic → List Nat
  | .B => [3] | .C => [4] | .N => [3, 5] | .P => [3, 5] | .O => [2] | .S => [2, 4, 6]
  | .F => [1] | .Cl => [1] | .Br => [1] | .I => [1] | .At => [1] | .Ts => [1]

/-- `impl TryFrom<&Element> for Aliphatic` -/
def Aliphatic.ofElement? : Element → Option Aliphatic
  | .B => some .B | .C => some .C | .N => some .N | .O => some .O | .S => some .S | .P => some .P
  | .F => some .F | .Cl => some .Cl | .Br => some .Br | .I => some .I | .At => some .At | .Ts => some .Ts
  | _ => none

/-- `impl Into<Aliphatic> for &Aromatic` -/
def Aromatic.toAliphatic : Aromatic → Aliphatic
  | .B => .B | .C => .C | .N => .N | .O => .O | .P => .P | .S => .S

def Aliphatic.toElement : Aliphatic → Element
  | .B => .B | .C => .C | .N => .N | .O => .O | .S => .S | .P => .P | .F => .F
  | .Cl => .Cl | .Br => .Br | .I => .I | .At => .At | .Ts => .Ts

/-- `src/feature/bracket_symbol.rs` -/
inductive BracketSymbol
  | star
  | element (e : Element)
  | aromatic (a : BracketAromatic)
  deriving DecidableEq, Repr

def BracketSymbol.text : BracketSymbol → Str
  | .star => ['*']
  | .element e => e.text
  | .aromatic a => a.text

/-- `src/feature/configuration.rs`: 57 configurations in declaration order. -/
inductive Configuration
  | AL1 | AL2 | OH1 | OH2 | OH3 | OH4 | OH5 | OH6 | OH7 | OH8
  | OH9 | OH10 | OH11 | OH12 | OH13 | OH14 | OH15 | OH16 | OH17 | OH18
  | OH19 | OH20 | OH21 | OH22 | OH23 | OH24 | OH25 | OH26 | OH27 | OH28
  | OH29 | OH30 | SP1 | SP2 | SP3 | TB1 | TB2 | TB3 | TB4 | TB5
  | TB6 | TB7 | TB8 | TB9 | TB10 | TB11 | TB12 | TB13 | TB14 | TB15
  | TB16 | TB17 | TB18 | TB19 | TB20 | TH1 | TH2
  deriving DecidableEq, Repr

def Configuration.all : List Configuration :=
  [.AL1, .AL2, .OH1, .OH2, .OH3, .OH4, .OH5, .OH6, .OH7, .OH8,
   .OH9, .OH10, .OH11, .OH12, .OH13, .OH14, .OH15, .OH16, .OH17, .OH18,
   .OH19, .OH20, .OH21, .OH22, .OH23, .OH24, .OH25, .OH26, .OH27, .OH28,
   .OH29, .OH30, .SP1, .SP2, .SP3, .TB1, .TB2, .TB3, .TB4, .TB5,
   .TB6, .TB7, .TB8, .TB9, .TB10, .TB11, .TB12, .TB13, .TB14, .TB15,
   .TB16, .TB17, .TB18, .TB19, .TB20, .TH1, .TH2]

/-- `impl Display for Configuration` (after fix D2: TB20, OH3, OH14 print their own names). -/
def Configuration.text : Configuration → Str
  | .AL1 => ['@']
  | .AL2 => ['@', '@']
  | .OH1 => ['@', 'O', 'H', '1']
  | .OH2 => ['@', 'O', 'H', '2']
  | .OH3 => ['@', 'O', 'H', '3']
  | .OH4 => ['@', 'O', 'H', '4']
  | .OH5 => ['@', 'O', 'H', '5']
  | .OH6 => ['@', 'O', 'H', '6']
  | .OH7 => ['@', 'O', 'H', '7']
  | .OH8 => ['@', 'O', 'H', '8']
  | .OH9 => ['@', 'O', 'H', '9']
  | .OH10 => ['@', 'O', 'H', '1', '0']
  | .OH11 => ['@', 'O', 'H', '1', '1']
  | .OH12 => ['@', 'O', 'H', '1', '2']
  | .OH13 => ['@', 'O', 'H', '1', '3']
  | .OH14 => ['@', 'O', 'H', '1', '4']
  | .OH15 => ['@', 'O', 'H', '1', '5']
  | .OH16 => ['@', 'O', 'H', '1', '6']
  | .OH17 => ['@', 'O', 'H', '1', '7']
  | .OH18 => ['@', 'O', 'H', '1', '8']
  | .OH19 => ['@', 'O', 'H', '1', '9']
  | .OH20 => ['@', 'O', 'H', '2', '0']
  | .OH21 => ['@', 'O', 'H', '2', '1']
  | .OH22 => ['@', 'O', 'H', '2', '2']
  | .OH23 => ['@', 'O', 'H', '2', '3']
  | .OH24 => ['@', 'O', 'H', '2', '4']
  | .OH25 => ['@', 'O', 'H', '2', '5']
  | .OH26 => ['@', 'O', 'H', '2', '6']
  | .OH27 => ['@', 'O', 'H', '2', '7']
  | .OH28 => ['@', 'O', 'H', '2', '8']
  | .OH29 => ['@', 'O', 'H', '2', '9']
  | .OH30 => ['@', 'O', 'H', '3', '0']
  | .SP1 => ['@', 'S', 'P', '1']
  | .SP2 => ['@', 'S', 'P', '2']
  | .SP3 => ['@', 'S', 'P', '3']
  | .TB1 => ['@', 'T', 'B', '1']
  | .TB2 => ['@', 'T', 'B', '2']
  | .TB3 => ['@', 'T', 'B', '3']
  | .TB4 => ['@', 'T', 'B', '4']
  | .TB5 => ['@', 'T', 'B', '5']
  | .TB6 => ['@', 'T', 'B', '6']
  | .TB7 => ['@', 'T', 'B', '7']
  | .TB8 => ['@', 'T', 'B', '8']
  | .TB9 => ['@', 'T', 'B', '9']
  | .TB10 => ['@', 'T', 'B', '1', '0']
  | .TB11 => ['@', 'T', 'B', '1', '1']
  | .TB12 => ['@', 'T', 'B', '1', '2']
  | .TB13 => ['@', 'T', 'B', '1', '3']
  | .TB14 => ['@', 'T', 'B', '1', '4']
  | .TB15 => ['@', 'T', 'B', '1', '5']
  | .TB16 => ['@', 'T', 'B', '1', '6']
  | .TB17 => ['@', 'T', 'B', '1', '7']
  | .TB18 => ['@', 'T', 'B', '1', '8']
  | .TB19 => ['@', 'T', 'B', '1', '9']
  | .TB20 => ['@', 'T', 'B', '2', '0']
  | .TH1 => ['@']
  | .TH2 => ['@', '@']

/-! ## Numeric feature types (compact models; every Rust table row is tied to these by the
    exhaustive S-table correspondence suite) -/

/-- decimal digit character of `d < 10` -/
def digitChar (d : Nat) : Char := Char.ofNat (48 + d)

/-- decimal rendering without leading zeros (Rust `{}` of an unsigned integer) -/
def natText (n : Nat) : Str :=
  if n < 10 then [digitChar n]
  else if n < 100 then [digitChar (n / 10), digitChar (n % 10)]
  else if n < 1000 then [digitChar (n / 100), digitChar (n / 10 % 10), digitChar (n % 10)]
  else (toString n).toList

/-- `src/feature/number.rs`: an integer 0‥999 (isotope, atom map). -/
structure Number where
  val : Nat
  lt : val < 1000
  deriving DecidableEq, Repr

/-- `impl TryFrom<u16> for Number` -/
def Number.ofNat? (n : Nat) : Option Number := if h : n < 1000 then some ⟨n, h⟩ else none
def Number.text (n : Number) : Str := natText n.val

/-- `src/feature/virtual_hydrogen.rs`: H0‥H9. -/
structure VirtualHydrogen where
  val : Nat
  lt : val < 10
  deriving DecidableEq, Repr

def VirtualHydrogen.ofNat? (n : Nat) : Option VirtualHydrogen := if h : n < 10 then some ⟨n, h⟩ else none
def VirtualHydrogen.isZero (h : VirtualHydrogen) : Bool := h.val == 0
/-- `impl Display for VirtualHydrogen`: H0 ↦ "", H1 ↦ "H", Hn ↦ "Hn" -/
def VirtualHydrogen.text (h : VirtualHydrogen) : Str :=
  if h.val = 0 then [] else if h.val = 1 then ['H'] else ['H', digitChar h.val]

/-- `src/feature/charge.rs`: −15‥15 without 0. -/
structure Charge where
  val : Int
  ok : val ≠ 0 ∧ -15 ≤ val ∧ val ≤ 15
  deriving DecidableEq, Repr

def Charge.ofInt? (z : Int) : Option Charge :=
  if h : z ≠ 0 ∧ -15 ≤ z ∧ z ≤ 15 then some ⟨z, h⟩ else none
/-- `impl Display for Charge` (after fix D3): "-15"‥"-2", "-", "+", "+2"‥"+15" -/
def Charge.text (c : Charge) : Str :=
  (if c.val < 0 then '-' else '+') :: (if c.val.natAbs = 1 then [] else natText c.val.natAbs)

/-- `src/feature/rnum.rs`: ring-closure numbers 0‥99. -/
structure Rnum where
  val : Nat
  lt : val < 100
  deriving DecidableEq, Repr

/-- `impl TryFrom<u16> for Rnum` (after fix D7) -/
def Rnum.ofNat? (n : Nat) : Option Rnum := if h : n < 100 then some ⟨n, h⟩ else none
/-- `impl Display for Rnum`: "0"‥"9", "%10"‥"%99" -/
def Rnum.text (r : Rnum) : Str :=
  if r.val < 10 then [digitChar r.val] else ['%', digitChar (r.val / 10), digitChar (r.val % 10)]

/-- `src/feature/bond_kind.rs` (declaration order). -/
inductive BondKind | elided | single | double | triple | quadruple | aromatic | up | down
  deriving DecidableEq, Repr

def BondKind.all : List BondKind := [.elided, .single, .double, .triple, .quadruple, .aromatic, .up, .down]

def BondKind.reverse : BondKind → BondKind
  | .up => .down | .down => .up | k => k

def BondKind.text : BondKind → Str
  | .elided => [] | .single => ['-'] | .double => ['='] | .triple => ['#'] | .quadruple => ['$']
  | .up => ['/'] | .down => ['\\'] | .aromatic => [':']

/-- `Bond::order` in `src/graph/bond.rs` -/
def BondKind.order : BondKind → Nat
  | .double => 2 | .triple => 3 | .quadruple => 4 | _ => 1

/-- `src/feature/atom_kind.rs`: the fields of `AtomKind::Bracket`. -/
structure Bracket where
  isotope : Option Number
  symbol : BracketSymbol
  configuration : Option Configuration
  hcount : Option VirtualHydrogen
  charge : Option Charge
  map : Option Number
  deriving DecidableEq, Repr

inductive AtomKind
  | star
  | aliphatic (a : Aliphatic)
  | aromatic (a : Aromatic)
  | bracket (b : Bracket)
  deriving DecidableEq, Repr

def optText {α} (f : α → Str) : Option α → Str
  | none => []
  | some a => f a

/-- `impl Display for AtomKind` -/
def AtomKind.text : AtomKind → Str
  | .star => ['*']
  | .aliphatic a => a.text
  | .aromatic a => a.text
  | .bracket b =>
    '[' :: (optText Number.text b.isotope ++ b.symbol.text ++ optText Configuration.text b.configuration
      ++ optText VirtualHydrogen.text b.hcount ++ optText Charge.text b.charge
      ++ (match b.map with | none => [] | some m => ':' :: m.text) ++ [']'])

def AtomKind.isAromatic : AtomKind → Bool
  | .aromatic _ => true
  | .bracket b => match b.symbol with | .aromatic _ => true | _ => false
  | _ => false

end Purr
