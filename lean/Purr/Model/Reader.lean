/-
  Purr.Model.Reader — `read` of src/read/read.rs as a left-to-right transducer.

  State = mode × stack of chain lengths (innermost first; one entry per open parenthesis plus
  one for the top level).  The Rust reader is recursive descent (`read_smiles`, `read_body`,
  `read_branch`, `read_split`, `read_union`); on the repaired tree (fix D16) it recurses only on
  `(`, so `stack.length` is the number of live `read_smiles` activations.  Behavioural equality
  with the Rust reader is established by the S-read correspondence suite.

  `run`  emits plain events (used by all theorems that do not mention cursors);
  `runL` emits the same events with the remaining-input lengths the trace needs;
  `Lemmas/ReaderL.lean` proves that erasing locations from `runL` gives `run`.
-/
import Purr.Model.Token
import Purr.Model.Event
namespace Purr
set_option linter.unusedVariables false

inductive Verdict
  | ok
  /-- `Err`: `EndOfLine` if `at_ = []`, else `Character(total − at_.length)` -/
  | fail (at_ : Str)
  | panic (site : String)
  deriving DecidableEq, Repr

inductive Mode
  /-- an atom must follow and becomes a root (start of input, after `.`) -/
  | needRoot
  /-- an atom must follow and extends the head with bond `b` (after `(` bond?) -/
  | needAtom (b : BondKind)
  /-- just after `(` -/
  | afterOpen
  /-- after an atom: `<body>*` -/
  | body
  deriving DecidableEq, Repr

def Mode.rank : Mode → Nat
  | .body => 1 | .afterOpen => 1 | _ => 0

def bump : List Nat → List Nat
  | l :: st => (l + 1) :: st
  | [] => [1]

theorem readBond_len (s : Str) : (readBond s).2.length ≤ s.length := by
  unfold readBond; split <;> simp

theorem takeDigits_len (n acc : Nat) (s : Str) : (takeDigits n acc s).2.length ≤ s.length := by
  induction n generalizing acc s with
  | zero => simp [takeDigits]
  | succ n ih =>
    cases s with
    | nil => simp [takeDigits]
    | cons c r =>
      simp only [takeDigits]; split
      · have := ih (10 * acc + digitVal c) r; simp; omega
      · simp

theorem readRnum_len {s r x} (h : readRnum s = .ok x r) : r.length < s.length := by
  unfold readRnum at h
  split at h
  · cases h
  · split at h
    · cases h; simp
    · split at h
      · split at h
        · cases h
        · split at h
          · split at h
            · cases h
            · split at h
              · cases h; simp; omega
              · cases h
          · cases h
      · cases h

theorem readOrganic_len {s r x} (h : readOrganic s = .ok x r) : r.length < s.length := by
  unfold readOrganic at h
  split at h <;> first
    | (cases h; simp; done)
    | (split at h <;> cases h <;> simp <;> omega)
    | cases h

theorem readIsotope_len (s : Str) : (readIsotope s).2.length ≤ s.length := by
  unfold readIsotope
  split
  · simp
  · split
    · rename_i c r _
      have := takeDigits_len 2 (digitVal c) r
      simp; omega
    · simp

theorem readSymbol_len {s r x} (h : readSymbol s = .ok x r) : r.length < s.length := by
  unfold readSymbol at h
  split at h
  · cases h
  · split at h
    · split at h
      · split at h <;> cases h; simp
      · split at h
        · cases h; simp; omega
        · split at h <;> cases h; simp
    · cases h

theorem cfgRes_ok {o rest a x r} (h : cfgRes o rest a = .ok x r) : r = rest := by
  unfold cfgRes at h; split at h <;> cases h; rfl

theorem readCfgDigit_len {f s r x} (h : readCfgDigit f s = .ok x r) : r.length ≤ s.length := by
  unfold readCfgDigit at h
  split at h
  · cases h
  · split at h
    · have := cfgRes_ok h; subst this; simp
    · cases h

theorem readCfgTwoDigit_len {f t u s r x} (h : readCfgTwoDigit f t u s = .ok x r) : r.length ≤ s.length := by
  unfold readCfgTwoDigit at h
  split at h
  · cases h
  · split at h
    · simp only at h
      split at h
      · split at h
        · split at h <;> (have := cfgRes_ok h; subst this; simp <;> omega)
        · have := cfgRes_ok h; subst this; simp
      · split at h
        · split at h <;> (have := cfgRes_ok h; subst this; simp <;> omega)
        · have := cfgRes_ok h; subst this; simp
    · cases h

theorem readConfiguration_len {s r x} (h : readConfiguration s = .ok x r) : r.length ≤ s.length := by
  unfold readConfiguration at h
  split at h
  · split at h
    · cases h; simp; omega
    · split at h
      · have := readCfgDigit_len h; simp; omega
      · cases h
    · split at h
      · have := readCfgTwoDigit_len h; simp; omega
      · cases h
    · split at h
      · have := readCfgDigit_len h; simp; omega
      · cases h
    · split at h
      · have := readCfgTwoDigit_len h; simp; omega
      · have := readCfgDigit_len h; simp; omega
      · cases h
    · cases h; simp
  · cases h; simp

theorem readHcount_len (s : Str) : (readHcount s).2.length ≤ s.length := by
  unfold readHcount
  split
  · split
    · split <;> simp <;> omega
    · simp
  · simp

theorem readFifteen_len {s v r} (h : readFifteen s = some (v, r)) : r.length ≤ s.length := by
  unfold readFifteen at h
  split at h
  · cases h
  · split at h
    · split at h
      · split at h <;> (cases h; simp <;> omega)
      · cases h; simp
    · split at h <;> cases h; simp

theorem readCharge_len {s r x} (h : readCharge s = .ok x r) : r.length ≤ s.length := by
  unfold readCharge at h
  split at h
  · split at h
    · rename_i hf; have := readFifteen_len hf
      split at h <;> cases h; simp; omega
    · split at h <;> (cases h; simp <;> omega)
  · split at h
    · rename_i hf; have := readFifteen_len hf
      split at h <;> cases h; simp; omega
    · split at h <;> (cases h; simp <;> omega)
  · cases h; simp

theorem readMap_len {s r x} (h : readMap s = .ok x r) : r.length ≤ s.length := by
  unfold readMap at h
  split at h
  · split at h
    · cases h
    · split at h
      · rename_i c r' _
        cases h
        have := takeDigits_len 2 (digitVal c) r'
        simp; omega
      · cases h
  · cases h; simp

theorem readBracket_len {s r x} (h : readBracket s = .ok x r) : r.length < s.length := by
  unfold readBracket at h
  split at h
  · rename_i r0
    simp only at h
    have h1 := readIsotope_len r0
    generalize readIsotope r0 = iso at h h1
    obtain ⟨isotope, r1⟩ := iso
    simp only at h h1
    split at h <;> try cases h
    rename_i symbol r2 hs
    have h2 := readSymbol_len hs
    split at h <;> try cases h
    rename_i configuration r3 hc
    have h3 := readConfiguration_len hc
    have h4 := readHcount_len r3
    generalize readHcount r3 = hc' at h h4
    obtain ⟨hcount, r4⟩ := hc'
    simp only at h h4
    split at h <;> try cases h
    rename_i charge r5 hq
    have h5 := readCharge_len hq
    split at h <;> try cases h
    rename_i map r6 hm
    have h6 := readMap_len hm
    split at h <;> cases h
    simp at *; omega
  · cases h

theorem readAtom_len {s r x} (h : readAtom s = .ok x r) : r.length < s.length := by
  unfold readAtom at h
  split at h
  · rename_i ho; cases h; exact readOrganic_len ho
  · cases h
  · cases h
  · split at h
    · rename_i hb; cases h; exact readBracket_len hb
    · cases h
    · cases h
    · split at h <;> cases h; simp


/-- what the `<body>*` loop of `read_smiles` sees next (`read_body`: branch, split, union; then the
    end of this `<smiles>`) -/
inductive BodyStep
  /-- `(` consumed -/
  | openParen (rest : Str)
  /-- `.` consumed -/
  | dot (rest : Str)
  /-- `<bond>? <atom>` consumed -/
  | atom (b : BondKind) (k : AtomKind) (rest : Str)
  /-- `<bond>? <rnum>` consumed -/
  | ring (b : BondKind) (r : Rnum) (rest : Str)
  /-- no body follows and the next character is `)` (consumed) -/
  | close (rest : Str)
  /-- no body follows: end of input -/
  | eoi
  | fail (at_ : Str)
  | panic (site : String)
  deriving DecidableEq, Repr

/-- `read_union` followed, when nothing is found, by the end-of-`<smiles>` test -/
def unionStep (s : Str) : BodyStep :=
  match readAtom (readBond s).2 with
  | .ok k rest => .atom (readBond s).1 k rest
  | .fail a => .fail a
  | .panic p => .panic p
  | .absent =>
    match readRnum (readBond s).2 with
    | .ok r rest => .ring (readBond s).1 r rest
    | .fail a => .fail a
    | .panic p => .panic p
    | .absent =>
      if (readBond s).1 ≠ .elided then .fail (readBond s).2
      else
        match s with
        | [] => .eoi
        | ')' :: rest => .close rest
        | _ => .fail s

def bodyStep (s : Str) : BodyStep :=
  match s with
  | '(' :: rest => .openParen rest
  | '.' :: rest => .dot rest
  | _ => unionStep s

theorem bodyStep_openParen {s rest} (h : bodyStep s = .openParen rest) : s = '(' :: rest := by
  unfold bodyStep unionStep at h
  split at h
  · cases h; rfl
  · cases h
  · repeat' split at h
    all_goals cases h

theorem bodyStep_dot {s rest} (h : bodyStep s = .dot rest) : s = '.' :: rest := by
  unfold bodyStep unionStep at h
  split at h
  · cases h
  · cases h; rfl
  · repeat' split at h
    all_goals cases h

theorem bodyStep_close {s rest} (h : bodyStep s = .close rest) : s = ')' :: rest := by
  unfold bodyStep unionStep at h
  split at h
  · cases h
  · cases h
  · repeat' split at h
    all_goals first | (cases h; done) | skip
    cases h; rfl

theorem bodyStep_atom_len {s b k rest} (h : bodyStep s = .atom b k rest) : rest.length < s.length := by
  unfold bodyStep unionStep at h
  split at h
  · cases h
  · cases h
  · split at h
    · rename_i ha
      cases h
      have := readAtom_len ha
      have := readBond_len s
      omega
    all_goals (repeat' split at h)
    all_goals cases h

theorem bodyStep_ring_len {s b r rest} (h : bodyStep s = .ring b r rest) : rest.length < s.length := by
  unfold bodyStep unionStep at h
  split at h
  · cases h
  · cases h
  · split at h
    · cases h
    · cases h
    · cases h
    · split at h
      · rename_i hr
        cases h
        have := readRnum_len hr
        have := readBond_len s
        omega
      all_goals (repeat' split at h)
      all_goals cases h

/-- The reader transducer (plain events). -/
def run (mode : Mode) (stack : List Nat) (s : Str) : List Event × Verdict :=
  match mode with
  | .needRoot =>
    match h : readAtom s with
    | .ok k rest => let q := run .body (bump stack) rest; (.root k :: q.1, q.2)
    | .absent => ([], .fail s)
    | .fail a => ([], .fail a)
    | .panic p => ([], .panic p)
  | .needAtom b =>
    match h : readAtom s with
    | .ok k rest => let q := run .body (bump stack) rest; (.extend b k :: q.1, q.2)
    | .absent => ([], .fail s)
    | .fail a => ([], .fail a)
    | .panic p => ([], .panic p)
  | .afterOpen =>
    match hs : s with
    | '.' :: rest => run .needRoot stack rest
    | _ => run (.needAtom (readBond s).1) stack (readBond s).2
  | .body =>
    match h : bodyStep s with
    | .openParen rest => run .afterOpen (0 :: stack) rest
    | .dot rest => run .needRoot stack rest
    | .atom b k rest => let q := run .body (bump stack) rest; (.extend b k :: q.1, q.2)
    | .ring b r rest => let q := run .body stack rest; (.join b r :: q.1, q.2)
    | .close rest =>
      (match stack with
      | l :: l' :: st => let q := run .body (l' :: st) rest; (.pop l :: q.1, q.2)
      | _ => ([], .fail s))
    | .eoi =>
      (match stack with
      | [_] => ([], .ok)
      | _ => ([], .fail []))
    | .fail a => ([], .fail a)
    | .panic p => ([], .panic p)
termination_by 2 * s.length + mode.rank
decreasing_by
  all_goals simp_wf
  all_goals (try have := readAtom_len h)
  all_goals (try have := bodyStep_openParen h)
  all_goals (try have := bodyStep_dot h)
  all_goals (try have := bodyStep_close h)
  all_goals (try have := bodyStep_atom_len h)
  all_goals (try have := bodyStep_ring_len h)
  all_goals (try have := readBond_len s)
  all_goals (try simp [Mode.rank])
  all_goals (try omega)
  all_goals (subst_vars; (try simp at *); (try omega))

/-- `read` of read.rs: events emitted (also on error, up to the error) and the verdict -/
def read (s : Str) : List Event × Verdict := run .needRoot [0] s

/-- events with the remaining-input lengths at the token boundaries (cursor = total − remaining) -/
inductive LEvent
  | root (k : AtomKind) (a e : Nat)
  | extend (b : BondKind) (k : AtomKind) (a e : Nat)
  | join (b : BondKind) (r : Rnum) (bc a e : Nat)
  | pop (d : Nat)
  deriving DecidableEq, Repr

def LEvent.erase : LEvent → Event
  | .root k _ _ => .root k
  | .extend b k _ _ => .extend b k
  | .join b r _ _ _ => .join b r
  | .pop d => .pop d

/-- The reader transducer with locations; same control structure as `run`. -/
def runL (mode : Mode) (stack : List Nat) (s : Str) : List LEvent × Verdict :=
  match mode with
  | .needRoot =>
    match h : readAtom s with
    | .ok k rest => let q := runL .body (bump stack) rest; (.root k s.length rest.length :: q.1, q.2)
    | .absent => ([], .fail s)
    | .fail a => ([], .fail a)
    | .panic p => ([], .panic p)
  | .needAtom b =>
    match h : readAtom s with
    | .ok k rest => let q := runL .body (bump stack) rest; (.extend b k s.length rest.length :: q.1, q.2)
    | .absent => ([], .fail s)
    | .fail a => ([], .fail a)
    | .panic p => ([], .panic p)
  | .afterOpen =>
    match hs : s with
    | '.' :: rest => runL .needRoot stack rest
    | _ => runL (.needAtom (readBond s).1) stack (readBond s).2
  | .body =>
    match h : bodyStep s with
    | .openParen rest => runL .afterOpen (0 :: stack) rest
    | .dot rest => runL .needRoot stack rest
    | .atom b k rest =>
      let q := runL .body (bump stack) rest
      (.extend b k (readBond s).2.length rest.length :: q.1, q.2)
    | .ring b r rest =>
      let q := runL .body stack rest
      (.join b r s.length (readBond s).2.length rest.length :: q.1, q.2)
    | .close rest =>
      (match stack with
      | l :: l' :: st => let q := runL .body (l' :: st) rest; (.pop l :: q.1, q.2)
      | _ => ([], .fail s))
    | .eoi =>
      (match stack with
      | [_] => ([], .ok)
      | _ => ([], .fail []))
    | .fail a => ([], .fail a)
    | .panic p => ([], .panic p)
termination_by 2 * s.length + mode.rank
decreasing_by
  all_goals simp_wf
  all_goals (try have := readAtom_len h)
  all_goals (try have := bodyStep_openParen h)
  all_goals (try have := bodyStep_dot h)
  all_goals (try have := bodyStep_close h)
  all_goals (try have := bodyStep_atom_len h)
  all_goals (try have := bodyStep_ring_len h)
  all_goals (try have := readBond_len s)
  all_goals (try simp [Mode.rank])
  all_goals (try omega)
  all_goals (subst_vars; (try simp at *); (try omega))

def readL (s : Str) : List LEvent × Verdict := runL .needRoot [0] s

/-- maximum stack length reached (C19: live `read_smiles` activations on the repaired tree) -/
def runDepth (mode : Mode) (stack : List Nat) (s : Str) : Nat :=
  match mode with
  | .needRoot =>
    match h : readAtom s with
    | .ok k rest => max stack.length (runDepth .body (bump stack) rest)
    | _ => stack.length
  | .needAtom b =>
    match h : readAtom s with
    | .ok k rest => max stack.length (runDepth .body (bump stack) rest)
    | _ => stack.length
  | .afterOpen =>
    match hs : s with
    | '.' :: rest => runDepth .needRoot stack rest
    | _ => runDepth (.needAtom (readBond s).1) stack (readBond s).2
  | .body =>
    match h : bodyStep s with
    | .openParen rest => runDepth .afterOpen (0 :: stack) rest
    | .dot rest => runDepth .needRoot stack rest
    | .atom b k rest => max stack.length (runDepth .body (bump stack) rest)
    | .ring b r rest => max stack.length (runDepth .body stack rest)
    | .close rest =>
      (match stack with
      | l :: l' :: st => max (st.length + 2) (runDepth .body (l' :: st) rest)
      | _ => stack.length)
    | _ => stack.length
termination_by 2 * s.length + mode.rank
decreasing_by
  all_goals simp_wf
  all_goals (try have := readAtom_len h)
  all_goals (try have := bodyStep_openParen h)
  all_goals (try have := bodyStep_dot h)
  all_goals (try have := bodyStep_close h)
  all_goals (try have := bodyStep_atom_len h)
  all_goals (try have := bodyStep_ring_len h)
  all_goals (try have := readBond_len s)
  all_goals (try simp [Mode.rank])
  all_goals (try omega)
  all_goals (subst_vars; (try simp at *); (try omega))

end Purr
