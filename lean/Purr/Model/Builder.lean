/-
  Purr.Model.Builder — `Builder` of src/graph/builder.rs (on the repaired tree: fix D9 records a
  `Join` error for a self or duplicate ring bond; fix D12 makes `invert_configuration` total),
  `reconcile` of src/graph/reconcile.rs, and the graph types of src/graph/{atom,bond}.rs.
  Machine integers are `Nat`; `Vec` is `List` (index-addressed, push = append);
  `HashMap<Rnum, usize>` is an association list used by key only.
-/
import Purr.Model.Event
namespace Purr

structure Bond where
  kind : BondKind
  tid : Nat
  deriving DecidableEq, Repr

structure Atom where
  kind : AtomKind
  bonds : List Bond
  deriving DecidableEq, Repr

abbrev Graph := List Atom

inductive BuildError
  | join (sid tid : Nat)
  | rnum (rid : Nat)
  deriving DecidableEq, Repr

/-- `reconcile` -/
def reconcile (left right : BondKind) : Option (BondKind × BondKind) :=
  if left = right then
    if left = .up ∨ left = .down then none else some (left, right)
  else if left = .up ∧ right = .down then some (left, right)
  else if left = .down ∧ right = .up then some (left, right)
  else if left = .elided then
    match right with
    | .up => some (.down, right)
    | .down => some (.up, right)
    | _ => some (right, right)
  else if right = .elided then
    match left with
    | .up => some (left, .down)
    | .down => some (left, .up)
    | _ => some (left, left)
  else none

/-- TH1 ↔ TH2 and AL1 ↔ AL2 (the two pairs written `@` / `@@`); identity elsewhere -/
def Configuration.flip : Configuration → Configuration
  | .TH1 => .TH2 | .TH2 => .TH1 | .AL1 => .AL2 | .AL2 => .AL1 | c => c

/-- `AtomKind::invert_configuration` (after fix D12): flips the mark iff a configuration and a
    non-zero hydrogen count are present -/
def AtomKind.invert : AtomKind → AtomKind
  | .bracket b =>
    match b.configuration, b.hcount with
    | some c, some h => if h.isZero then .bracket b else .bracket { b with configuration := some c.flip }
    | _, _ => .bracket b
  | k => k

inductive Target
  | id (t : Nat)
  | rnum (rid sid : Nat) (r : Rnum)
  deriving DecidableEq, Repr

structure Edge where
  kind : BondKind
  target : Target
  deriving DecidableEq, Repr

structure Node where
  kind : AtomKind
  edges : List Edge
  deriving DecidableEq, Repr

structure BState where
  /-- head first -/
  stack : List Nat
  graph : List Node
  opens : List (Rnum × Nat)
  /-- in the order recorded -/
  errors : List BuildError
  rid : Nat
  deriving DecidableEq, Repr

def BState.init : BState := ⟨[], [], [], [], 0⟩

def addEdge (g : List Node) (i : Nat) (e : Edge) : List Node :=
  g.modify i (fun n => { n with edges := n.edges ++ [e] })

def isOpenFor (r : Rnum) (e : Edge) : Bool :=
  match e.target with
  | .rnum _ _ r' => r' == r
  | .id _ => false

/-- replace the first placeholder for `r` in `edges` by `(kind, id sid)` -/
def closeEdge (r : Rnum) (kind : BondKind) (sid : Nat) : List Edge → List Edge
  | [] => []
  | e :: es => if isOpenFor r e then ⟨kind, .id sid⟩ :: es else e :: closeEdge r kind sid es

def hasIdEdge (n : Node) (t : Nat) : Bool := n.edges.any (fun e => e.target == .id t)

/-- one `Follower` call; `none` = a documented panic (headless extend/join, index out of range,
    missing placeholder) -/
def bstep (s : BState) : Event → Option BState
  | .root k => some { s with stack := s.graph.length :: s.stack, graph := s.graph ++ [⟨k, []⟩] }
  | .extend b k =>
    match s.stack with
    | [] => none
    | sid :: _ =>
      if sid < s.graph.length then
        let tid := s.graph.length
        some { s with
          stack := tid :: s.stack
          graph := addEdge (s.graph ++ [⟨k.invert, [⟨b.reverse, .id sid⟩]⟩]) sid ⟨b, .id tid⟩ }
      else none
  | .join b r =>
    match s.stack with
    | [] => none
    | sid :: _ =>
      if sid < s.graph.length then
        match s.opens.lookup r with
        | some tid =>
          let opens := s.opens.filter (fun p => p.1 != r)
          match s.graph[tid]? with
          | none => none
          | some tnode =>
            match tnode.edges.find? (isOpenFor r) with
            | none => none
            | some edge =>
              if sid = tid ∨ hasIdEdge tnode sid then
                some { s with opens := opens, errors := s.errors ++ [.join sid tid], rid := s.rid + 1 }
              else
                match reconcile edge.kind b with
                | some (left, right) =>
                  let g := s.graph.modify tid (fun n => { n with edges := closeEdge r left sid n.edges })
                  some { s with opens := opens, graph := addEdge g sid ⟨right, .id tid⟩, rid := s.rid + 1 }
                | none =>
                  some { s with opens := opens, errors := s.errors ++ [.join sid tid], rid := s.rid + 1 }
        | none =>
          some { s with
            opens := (r, sid) :: s.opens
            graph := addEdge s.graph sid ⟨b, .rnum s.rid sid r⟩
            rid := s.rid + 1 }
      else none
  | .pop d => some { s with stack := s.stack.drop d }

def brun : BState → List Event → Option BState
  | s, [] => some s
  | s, e :: es => match bstep s e with
    | some s' => brun s' es
    | none => none

def nodeBonds : List Edge → Except BuildError (List Bond)
  | [] => .ok []
  | e :: es =>
    match e.target with
    | .id t => (nodeBonds es).map (fun bs => ⟨e.kind, t⟩ :: bs)
    | .rnum rid _ _ => .error (.rnum rid)

def buildNodes : List Node → Except BuildError Graph
  | [] => .ok []
  | n :: ns =>
    match nodeBonds n.edges with
    | .error e => .error e
    | .ok bs => (buildNodes ns).map (fun g => ⟨n.kind, bs⟩ :: g)

/-- `Builder::build` -/
def BState.build (s : BState) : Except BuildError Graph :=
  match s.errors with
  | e :: _ => .error e
  | [] => buildNodes s.graph

/-- drive a fresh builder with `es` and build; `none` = a follower panic -/
def build? (es : List Event) : Option (Except BuildError Graph) := (brun .init es).map BState.build

end Purr
