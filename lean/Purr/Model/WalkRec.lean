/-
  Purr.Model.WalkRec — the traversal of src/walk/walk.rs as a recursive depth-first search.

  `walk` (Purr/Model/Walk.lean) mirrors the explicit-stack loop of the Rust code and carries the
  theorems of C08 / C11; this recursive formulation emits the same events (compared with the real code
  on every run, field EVR of the S-graph suite) and is the one the round-trip core (C01, C03, C12, C14)
  is proved about.  Pops are emitted lazily: `cur` is the number of atoms on the chain above the
  current atom, and is popped just before the next event made at that atom.

  Events are labelled with the id of the atom they create (0 for join / pop), for the abstract builder.
-/
import Purr.Model.Walk
namespace Purr

def popEv (cur : Nat) : List (Event × Nat) := if cur > 0 then [(.pop cur, 0)] else []

/-- the kind handed to the follower when an atom of kind `k` with bond list `bs` is entered from `a` -/
def enterKind (a : Nat) (k : AtomKind) (bs : List Bond) : AtomKind := (scanChild a 0 k bs 0).1

/-- depth-first search over the remaining bonds `bs` of atom `a`, entered from `p`.
    Threaded state: visit order `ord` (oldest first), ring-number pool, `cur`. -/
def kids (g : Graph) : Nat → List Nat → Pool → Nat → Option Nat → List Bond → Nat →
    Option (List (Event × Nat) × List Nat × Pool × Nat)
  | 0, _, _, _, _, _, _ => none
  | _ + 1, ord, pool, _, _, [], cur => some ([], ord, pool, cur)
  | f + 1, ord, pool, a, p, b :: bs, cur =>
    if p = some b.tid then kids g f ord pool a p bs cur
    else if ord.contains b.tid then
      match pool.hit (a, b.tid) with
      | .ok r pool' =>
        match kids g f ord pool' a p bs 0 with
        | some (es, ord', pool'', c) => some (popEv cur ++ (.join b.kind r, 0) :: es, ord', pool'', c)
        | none => none
      | .panic _ _ => none
    else
      match g[b.tid]? with
      | none => none
      | some child =>
        match kids g f (ord ++ [b.tid]) pool b.tid (some a) child.bonds 0 with
        | none => none
        | some (es1, ord1, pool1, d1) =>
          match kids g f ord1 pool1 a p bs (1 + d1) with
          | none => none
          | some (es2, ord2, pool2, c) =>
            some (popEv cur ++ (.extend b.kind (enterKind a child.kind child.bonds), b.tid) :: es1 ++ es2, ord2, pool2, c)

/-- the components, started in increasing id order over the atoms not yet visited -/
def comps (g : Graph) (fuel : Nat) : List Nat → List Nat → Pool → Option (List (Event × Nat) × List Nat × Pool)
  | [], ord, pool => some ([], ord, pool)
  | id :: ids, ord, pool =>
    if ord.contains id then comps g fuel ids ord pool
    else
      match g[id]? with
      | none => none
      | some root =>
        match kids g fuel (ord ++ [id]) pool id none root.bonds 0 with
        | none => none
        | some (es, ord1, pool1, _) =>
          match comps g fuel ids ord1 pool1 with
          | none => none
          | some (es', ord2, pool2) => some ((.root root.kind, id) :: es ++ es', ord2, pool2)

def recFuel (g : Graph) : Nat := 2 * walkFuel g + 2

/-- labelled events and visit order of the whole traversal; `none` when validation fails (or the pool
    runs out of numbers) -/
def walkRecL (g : Graph) : Option (List (Event × Nat) × List Nat) :=
  match validate g with
  | some _ => none
  | none => (comps g (recFuel g) (List.range g.length) [] .init).map (fun r => (r.1, r.2.1))

def walkRec (g : Graph) : Option (List Event) := (walkRecL g).map (fun r => r.1.map (·.1))

end Purr
