/-
  Purr.Model.Writer — `Writer` of src/write/writer.rs as a fold over events.
  The Rust stack `Vec<String>` (bottom first) is a list with the innermost segment first.
  `none` stands for the documented panics (`expect("last")`, `panic!("overpop")`).
-/
import Purr.Model.Event
namespace Purr

def wstep (st : List Str) : Event → Option (List Str)
  | .root k => some (match st with
      | [] => [k.text]
      | _ => ('.' :: k.text) :: st)
  | .extend b k => some ((b.text ++ k.text) :: st)
  | .join b r => match st with
      | top :: rest => some ((top ++ b.text ++ r.text) :: rest)
      | [] => none
  | .pop d =>
      if d ≥ st.length then none
      else match st.drop d with
        | top :: rest => some ((top ++ '(' :: (st.take d).reverse.flatten ++ [')']) :: rest)
        | [] => none

def wrun : List Str → List Event → Option (List Str)
  | st, [] => some st
  | st, e :: es => match wstep st e with
    | some st' => wrun st' es
    | none => none

/-- `Writer::write` after feeding `es` to a fresh writer; `none` = the writer panicked -/
def write? (es : List Event) : Option Str := (wrun [] es).map (fun st => st.reverse.flatten)

def write (es : List Event) : Str := (write? es).getD []

end Purr
