/-
  Purr.Spec.WellFormed — a well-formed undirected simple graph as an adjacency list, written from
  the property text (C10, C11): every bond target exists, no atom is bonded to itself, no pair is
  bonded twice, and every bond has exactly one counterpart on the other atom whose kind is the same
  (reversed for directional bonds).
-/
import Purr.Model.Builder
namespace Purr.Spec
open Purr

/-- the half-bonds from `bonds` to atom `t` -/
def bondsTo (bonds : List Bond) (t : Nat) : List Bond := bonds.filter (fun b => b.tid == t)

def WellFormed (g : Graph) : Prop :=
  ∀ a atom, g[a]? = some atom → ∀ b ∈ atom.bonds,
    b.tid ≠ a ∧
    (bondsTo atom.bonds b.tid).length = 1 ∧
    ∃ tatom, g[b.tid]? = some tatom ∧ ∃ back, bondsTo tatom.bonds a = [back] ∧ back.kind = b.kind.reverse

end Purr.Spec
