/-
  Purr.Spec.Automaton — the documented SMILES grammar as a deterministic character-level automaton with a
  parenthesis counter, written from the property text of C04 / C05 and the OpenSMILES token tables, not from
  the reader.  Every state can still be completed to a sentence, so the first character without a transition
  is the first character that cannot continue any valid SMILES (`Lemmas/AutomatonL.lean`).

  Tokens: organic-subset atoms (B C N O S P F Cl Br I At Ts, aromatic b c n o p s), `*`, bracket atoms
  `[` isotope? symbol configuration? hcount? charge? map? `]` with an isotope of up to three digits, one of the
  118 element symbols (independent table `Spec.periodicSymbols`), the aromatic symbols b c n o s p se as, or `*`;
  configurations @ @@ @TH1-2 @AL1-2 @SP1-3 @TB1-20 @OH1-30; `H` with an optional digit; charges + - ++ --
  +1..+15 -1..-15; `:` with one to three digits.  Bodies: bonds - = # $ : / \, ring numbers 0-9 and %00-%99,
  dots, parenthesised branches.
-/
import Purr.Spec.Periodic
namespace Purr.Spec

abbrev Str := List Char

def isDig (c : Char) : Bool := '0' ≤ c && c ≤ '9'
def isBondCh (c : Char) : Bool := c == '-' || c == '=' || c == '#' || c == '$' || c == ':' || c == '/' || c == '\\'

/-- spellings of bracket symbols other than `*` -/
def bracketSymbols : List Str :=
  periodicSymbols ++ [['b'], ['c'], ['n'], ['o'], ['s'], ['p'], ['s', 'e'], ['a', 's']]

/-- is `[c]` a symbol, and which second letters make a two-letter symbol with `c` -/
def oneOK (c : Char) : Bool := bracketSymbols.contains [c]
def twoOK (c d : Char) : Bool := bracketSymbols.contains [c, d]
def firstOK (c : Char) : Bool := bracketSymbols.any (fun s => s.head? == some c)

inductive Q
  -- outside brackets
  | needAtom            -- an atom must start here (start of input, after a dot, after a bond inside `(`)
  | afterOpen           -- after `(`: an optional dot or bond, then an atom
  | body                -- after an atom, a ring number or `)`
  | afterBond           -- after a bond in a chain: an atom or a ring number
  | pct1 | pct2         -- after `%`, after `%d`
  | orgA | orgT         -- after `A` (needs `t`), after `T` (needs `s`)
  | orgB | orgC         -- after `B` (maybe `r`), after `C` (maybe `l`): otherwise like `body`
  -- inside brackets
  | brOpen | iso1 | iso2 | iso3
  | sym (c : Char)      -- first letter of a symbol read
  | afterSym
  | at1                 -- after `@`
  | atT | atTH | atTB | atTBd (d : Nat)
  | atA | atAL | atS | atSP | atO | atOH | atOHd (d : Nat)
  | afterCfg
  | h0 | afterH
  | sign (plus : Bool) | chargeOne | afterCharge
  | map0 | map1 | map2 | map3
  deriving DecidableEq, Repr

structure Cfg where
  q : Q
  depth : Nat
  deriving DecidableEq, Repr

def digitOf (c : Char) : Nat := c.toNat - '0'.toNat

/-- start of an atom outside brackets -/
def atomStart (depth : Nat) (c : Char) : Option Cfg :=
  if c == '*' || c == 'b' || c == 'c' || c == 'n' || c == 'o' || c == 'p' || c == 's' ||
     c == 'N' || c == 'O' || c == 'P' || c == 'S' || c == 'F' || c == 'I' then some ⟨.body, depth⟩
  else if c == 'A' then some ⟨.orgA, depth⟩
  else if c == 'T' then some ⟨.orgT, depth⟩
  else if c == 'B' then some ⟨.orgB, depth⟩
  else if c == 'C' then some ⟨.orgC, depth⟩
  else if c == '[' then some ⟨.brOpen, depth⟩
  else none

def rnumStart (depth : Nat) (c : Char) : Option Cfg :=
  if isDig c then some ⟨.body, depth⟩ else if c == '%' then some ⟨.pct1, depth⟩ else none

def bodyStep (depth : Nat) (c : Char) : Option Cfg :=
  if c == '(' then some ⟨.afterOpen, depth + 1⟩
  else if c == ')' then (if depth = 0 then none else some ⟨.body, depth - 1⟩)
  else if c == '.' then some ⟨.needAtom, depth⟩
  else if isBondCh c then some ⟨.afterBond, depth⟩
  else match atomStart depth c with
    | some k => some k
    | none => rnumStart depth c

def symStart (depth : Nat) (c : Char) : Option Cfg :=
  if c == '*' then some ⟨.afterSym, depth⟩ else if firstOK c then some ⟨.sym c, depth⟩ else none

/-- after the symbol: configuration, hydrogens, charge, map, `]` -/
def afterChargeStep (depth : Nat) (c : Char) : Option Cfg :=
  if c == ':' then some ⟨.map0, depth⟩ else if c == ']' then some ⟨.body, depth⟩ else none

def afterHStep (depth : Nat) (c : Char) : Option Cfg :=
  if c == '+' then some ⟨.sign true, depth⟩ else if c == '-' then some ⟨.sign false, depth⟩ else afterChargeStep depth c

def afterCfgStep (depth : Nat) (c : Char) : Option Cfg :=
  if c == 'H' then some ⟨.h0, depth⟩ else afterHStep depth c

def afterSymStep (depth : Nat) (c : Char) : Option Cfg :=
  if c == '@' then some ⟨.at1, depth⟩ else afterCfgStep depth c

/-- the transition function -/
def step (k : Cfg) (c : Char) : Option Cfg :=
  let d := k.depth
  match k.q with
  | .needAtom => atomStart d c
  | .afterOpen => if c == '.' || isBondCh c then some ⟨.needAtom, d⟩ else atomStart d c
  | .body => bodyStep d c
  | .afterBond => (match atomStart d c with | some k' => some k' | none => rnumStart d c)
  | .pct1 => if isDig c then some ⟨.pct2, d⟩ else none
  | .pct2 => if isDig c then some ⟨.body, d⟩ else none
  | .orgA => if c == 't' then some ⟨.body, d⟩ else none
  | .orgT => if c == 's' then some ⟨.body, d⟩ else none
  | .orgB => if c == 'r' then some ⟨.body, d⟩ else bodyStep d c
  | .orgC => if c == 'l' then some ⟨.body, d⟩ else bodyStep d c
  | .brOpen => if isDig c then some ⟨.iso1, d⟩ else symStart d c
  | .iso1 => if isDig c then some ⟨.iso2, d⟩ else symStart d c
  | .iso2 => if isDig c then some ⟨.iso3, d⟩ else symStart d c
  | .iso3 => symStart d c
  | .sym c1 => if twoOK c1 c then some ⟨.afterSym, d⟩ else if oneOK c1 then afterSymStep d c else none
  | .afterSym => afterSymStep d c
  | .at1 =>
    if c == '@' then some ⟨.afterCfg, d⟩ else if c == 'T' then some ⟨.atT, d⟩ else if c == 'A' then some ⟨.atA, d⟩
    else if c == 'S' then some ⟨.atS, d⟩ else if c == 'O' then some ⟨.atO, d⟩ else afterCfgStep d c
  | .atT => if c == 'H' then some ⟨.atTH, d⟩ else if c == 'B' then some ⟨.atTB, d⟩ else none
  | .atTH => if c == '1' || c == '2' then some ⟨.afterCfg, d⟩ else none
  | .atTB => if isDig c && c != '0' then some ⟨.atTBd (digitOf c), d⟩ else none
  | .atTBd n =>
    if (n = 1 && isDig c) || (n = 2 && c == '0') then some ⟨.afterCfg, d⟩ else afterCfgStep d c
  | .atA => if c == 'L' then some ⟨.atAL, d⟩ else none
  | .atAL => if c == '1' || c == '2' then some ⟨.afterCfg, d⟩ else none
  | .atS => if c == 'P' then some ⟨.atSP, d⟩ else none
  | .atSP => if c == '1' || c == '2' || c == '3' then some ⟨.afterCfg, d⟩ else none
  | .atO => if c == 'H' then some ⟨.atOH, d⟩ else none
  | .atOH => if isDig c && c != '0' then some ⟨.atOHd (digitOf c), d⟩ else none
  | .atOHd n =>
    if ((n = 1 || n = 2) && isDig c) || (n = 3 && c == '0') then some ⟨.afterCfg, d⟩ else afterCfgStep d c
  | .afterCfg => afterCfgStep d c
  | .h0 => if isDig c then some ⟨.afterH, d⟩ else afterHStep d c
  | .afterH => afterHStep d c
  | .sign plus =>
    if (plus && c == '+') || (!plus && c == '-') then some ⟨.afterCharge, d⟩
    else if c == '1' then some ⟨.chargeOne, d⟩
    else if isDig c && c != '0' then some ⟨.afterCharge, d⟩
    else afterChargeStep d c
  | .chargeOne => if '0' ≤ c && c ≤ '5' then some ⟨.afterCharge, d⟩ else afterChargeStep d c
  | .afterCharge => afterChargeStep d c
  | .map0 => if isDig c then some ⟨.map1, d⟩ else none
  | .map1 => if isDig c then some ⟨.map2, d⟩ else if c == ']' then some ⟨.body, d⟩ else none
  | .map2 => if isDig c then some ⟨.map3, d⟩ else if c == ']' then some ⟨.body, d⟩ else none
  | .map3 => if c == ']' then some ⟨.body, d⟩ else none

def accepting (k : Cfg) : Bool :=
  k.depth == 0 && (k.q == .body || k.q == .orgB || k.q == .orgC)

inductive Verdict
  | ok
  | endOfLine
  | character (i : Nat)
  deriving DecidableEq, Repr

/-- run from configuration `k` at character index `i` -/
def runFrom (k : Cfg) (i : Nat) : Str → Verdict
  | [] => if accepting k then .ok else .endOfLine
  | c :: s => match step k c with
    | some k' => runFrom k' (i + 1) s
    | none => .character i

def start : Cfg := ⟨.needAtom, 0⟩

/-- the verdict of the documented grammar on a string -/
def classify (s : Str) : Verdict := runFrom start 0 s

end Purr.Spec
