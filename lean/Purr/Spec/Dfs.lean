/-
  Purr.Spec.Dfs — the visit order C12 speaks of, as the textbook depth-first preorder: nothing but the
  adjacency list and the atoms seen so far (no events, no ring-number pool, no parent, no pop counts).

    * `dfsBonds`: go through a bond list in list order; a bond to an atom seen already is passed over; a bond to
      a new atom visits it — it is appended to the order and ITS bond list is gone through completely — before
      the next bond of the list is looked at ("children are visited in list order");
    * `dfsFrom`: go through the candidate start atoms in the order given; one seen already is passed over, a new
      one starts a component;
    * `dfsOrder`: the candidates are `0, 1, …, n-1` ("components start at the lowest-numbered unvisited atom").
-/
import Purr.Model.Builder
namespace Purr.Spec
open Purr

def dfsBonds (g : Graph) : Nat → List Nat → List Bond → Option (List Nat)
  | 0, _, _ => none
  | _ + 1, seen, [] => some seen
  | f + 1, seen, b :: bs =>
    if seen.contains b.tid then dfsBonds g f seen bs
    else
      match g[b.tid]? with
      | none => none
      | some child =>
        match dfsBonds g f (seen ++ [b.tid]) child.bonds with
        | none => none
        | some seen1 => dfsBonds g f seen1 bs

def dfsFrom (g : Graph) (fuel : Nat) : List Nat → List Nat → Option (List Nat)
  | [], seen => some seen
  | id :: ids, seen =>
    if seen.contains id then dfsFrom g fuel ids seen
    else
      match g[id]? with
      | none => none
      | some root =>
        match dfsBonds g fuel (seen ++ [id]) root.bonds with
        | none => none
        | some seen1 => dfsFrom g fuel ids seen1

/-- the depth-first preorder of the whole adjacency list; `fuel` only bounds the recursion (`none` = not enough) -/
def dfsOrder (g : Graph) (fuel : Nat) : Option (List Nat) := dfsFrom g fuel (List.range g.length) []

end Purr.Spec
