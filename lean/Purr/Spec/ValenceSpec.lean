/-
  Purr.Spec.ValenceSpec — the valence model as the property text of C17 states it, written
  independently of `Purr/Model/Valence.lean`.
-/
import Purr.Model.Valence
namespace Purr.Spec
open Purr

/-- standard valences of the organic-subset elements: B 3; C 4; N, P 3 or 5; O 2; S 2, 4 or 6; halogens 1 -/
def stdValences : Element → List Nat
  | .B => [3]
  | .C => [4]
  | .N => [3, 5]
  | .P => [3, 5]
  | .O => [2]
  | .S => [2, 4, 6]
  | .F => [1] | .Cl => [1] | .Br => [1] | .I => [1] | .At => [1] | .Ts => [1]
  | _ => []

/-- distance from `v` to the smallest valence in `vs` that is not below `v`; zero when there is none -/
def hSpec (vs : List Nat) (v : Nat) : Nat :=
  match vs.find? (fun t => v ≤ t) with
  | some t => t - v
  | none => 0

/-- atomic number: position in the periodic table -/
def atomicNumber (e : Element) : Nat := Element.all.idxOf e + 1

end Purr.Spec
