/-
  Purr.Spec.Periodic — the 118 element symbols in atomic-number order, transcribed independently of
  rapodaca/purr's tables (second transcription, used by C07's `standard_spelling`).
-/
namespace Purr.Spec

def periodicSymbols : List (List Char) :=
  [
   ['H'], ['H', 'e'], ['L', 'i'], ['B', 'e'], ['B'], ['C'],
   ['N'], ['O'], ['F'], ['N', 'e'], ['N', 'a'], ['M', 'g'],
   ['A', 'l'], ['S', 'i'], ['P'], ['S'], ['C', 'l'], ['A', 'r'],
   ['K'], ['C', 'a'], ['S', 'c'], ['T', 'i'], ['V'], ['C', 'r'],
   ['M', 'n'], ['F', 'e'], ['C', 'o'], ['N', 'i'], ['C', 'u'], ['Z', 'n'],
   ['G', 'a'], ['G', 'e'], ['A', 's'], ['S', 'e'], ['B', 'r'], ['K', 'r'],
   ['R', 'b'], ['S', 'r'], ['Y'], ['Z', 'r'], ['N', 'b'], ['M', 'o'],
   ['T', 'c'], ['R', 'u'], ['R', 'h'], ['P', 'd'], ['A', 'g'], ['C', 'd'],
   ['I', 'n'], ['S', 'n'], ['S', 'b'], ['T', 'e'], ['I'], ['X', 'e'],
   ['C', 's'], ['B', 'a'], ['L', 'a'], ['C', 'e'], ['P', 'r'], ['N', 'd'],
   ['P', 'm'], ['S', 'm'], ['E', 'u'], ['G', 'd'], ['T', 'b'], ['D', 'y'],
   ['H', 'o'], ['E', 'r'], ['T', 'm'], ['Y', 'b'], ['L', 'u'], ['H', 'f'],
   ['T', 'a'], ['W'], ['R', 'e'], ['O', 's'], ['I', 'r'], ['P', 't'],
   ['A', 'u'], ['H', 'g'], ['T', 'l'], ['P', 'b'], ['B', 'i'], ['P', 'o'],
   ['A', 't'], ['R', 'n'], ['F', 'r'], ['R', 'a'], ['A', 'c'], ['T', 'h'],
   ['P', 'a'], ['U'], ['N', 'p'], ['P', 'u'], ['A', 'm'], ['C', 'm'],
   ['B', 'k'], ['C', 'f'], ['E', 's'], ['F', 'm'], ['M', 'd'], ['N', 'o'],
   ['L', 'r'], ['R', 'f'], ['D', 'b'], ['S', 'g'], ['B', 'h'], ['H', 's'],
   ['M', 't'], ['D', 's'], ['R', 'g'], ['C', 'n'], ['N', 'h'], ['F', 'l'],
   ['M', 'c'], ['L', 'v'], ['T', 's'], ['O', 'g']]

end Purr.Spec
