/-
  Purr.Spec.Bnf — the productions the reader documents (comments of src/read/read.rs), as an inductive
  derivation relation:

      <smiles> ::= <atom> <body>*
      <body>   ::= <branch> | <split> | <union>
      <branch> ::= "(" ( <dot> | <bond> )? <smiles> ")"
      <split>  ::= <dot> <smiles>
      <union>  ::= <bond>? ( <smiles> | <rnum> )

  `Derives nt s r` : a phrase of nonterminal `nt` can be taken from the front of `s`, leaving `r`.  The
  terminals `<atom>`, `<bond>`, `<rnum>` are the token readers of Purr/Model/Token.lean (longest match,
  as in the code); their own language is what `Spec/Automaton.lean` and C07 pin down.  Nothing here follows
  the control flow of the reader: `<body>*` may stop anywhere, the optional prefix of a branch and of a union
  is a free choice, and a `<union>` may continue with a whole nested `<smiles>`.
-/
import Purr.Model.Token
namespace Purr.Spec.Bnf
open Purr

inductive NT
  | smiles | bodies | body
  deriving DecidableEq, Repr

/-- a written bond symbol: `readBond` consumes exactly one character -/
def BondSym (s s1 : Str) : Prop := ∃ b, b ≠ BondKind.elided ∧ readBond s = (b, s1)

inductive Derives : NT → Str → Str → Prop
  /-- `<smiles> ::= <atom> <body>*` -/
  | smiles {s r1 r : Str} {k : AtomKind} : readAtom s = .ok k r1 → Derives .bodies r1 r → Derives .smiles s r
  /-- `<body>*` -/
  | nil {s : Str} : Derives .bodies s s
  | cons {s r1 r : Str} : Derives .body s r1 → Derives .bodies r1 r → Derives .bodies s r
  /-- `<branch> ::= "(" <smiles> ")"` -/
  | branch {s1 r : Str} : Derives .smiles s1 (')' :: r) → Derives .body ('(' :: s1) r
  /-- `<branch> ::= "(" <dot> <smiles> ")"` -/
  | branchDot {s1 r : Str} : Derives .smiles s1 (')' :: r) → Derives .body ('(' :: '.' :: s1) r
  /-- `<branch> ::= "(" <bond> <smiles> ")"` -/
  | branchBond {s0 s1 r : Str} : BondSym s0 s1 → Derives .smiles s1 (')' :: r) → Derives .body ('(' :: s0) r
  /-- `<split> ::= <dot> <smiles>` -/
  | split {s1 r : Str} : Derives .smiles s1 r → Derives .body ('.' :: s1) r
  /-- `<union> ::= <smiles>` -/
  | union {s r : Str} : Derives .smiles s r → Derives .body s r
  /-- `<union> ::= <bond> <smiles>` -/
  | unionBond {s s1 r : Str} : BondSym s s1 → Derives .smiles s1 r → Derives .body s r
  /-- `<union> ::= <rnum>` -/
  | ring {s r : Str} {n : Rnum} : readRnum s = .ok n r → Derives .body s r
  /-- `<union> ::= <bond> <rnum>` -/
  | ringBond {s s1 r : Str} {n : Rnum} : BondSym s s1 → readRnum s1 = .ok n r → Derives .body s r

/-- `s` is a sentence: a `<smiles>` that uses the whole string -/
def Sentence (s : Str) : Prop := Derives .smiles s []

end Purr.Spec.Bnf
