/-
  Purr.Spec.Denote — what a history of follower calls (hence an accepted string) DENOTES, stated
  declaratively, without a builder: no mutable node list, no placeholders.

    * events are annotated with the atom at the head of the path before them and the number of atoms
      created before them (`annotate`, by replaying the path stack);
    * ring-closure digits are paired by one left-to-right scan: a digit closes the nearest preceding open
      digit with the same number, otherwise it opens (`scan`);
    * the bond list of atom `i` is read off the events in written order (`contribH`): the event that
      created `i` gives the bond to the preceding atom (kind reversed), an atom token after a bond at `i`
      gives the bond to the new atom, a ring-closure digit at `i` gives the bond to the atom of its
      partner digit with the reconciled kind — so the list is: preceding atom, then ring digits, branches
      and chain successor in written order;
    * atom kinds are the written ones (non-root atoms with the C03 adjustment, `AtomKind.invert`).
-/
import Purr.Model.Builder
namespace Purr.Spec
open Purr

structure Ann where
  ev : Event
  head : Option Nat
  count : Nat
  deriving Repr

/-- path stack and number of atoms after the events -/
def replay : List Nat → Nat → List Event → List Nat × Nat
  | st, n, [] => (st, n)
  | st, n, .root _ :: es => replay (n :: st) (n + 1) es
  | st, n, .extend _ _ :: es => replay (n :: st) (n + 1) es
  | st, n, .pop d :: es => replay (st.drop d) n es
  | st, n, .join _ _ :: es => replay st n es

def annotate : List Nat → Nat → List Event → List Ann
  | _, _, [] => []
  | st, n, e :: es => ⟨e, st.head?, n⟩ :: annotate (replay st n [e]).1 (replay st n [e]).2 es

/-- one step of the pairing scan at event index `k`: pairs found so far, digits still open -/
def scanStep (k : Nat) (x : Ann) (PO : List (Nat × Nat) × List (Rnum × Nat)) : List (Nat × Nat) × List (Rnum × Nat) :=
  match x.ev with
  | .join _ r =>
    match PO.2.lookup r with
    | some j => (PO.1 ++ [(j, k)], PO.2.filter (fun p => p.1 != r))
    | none => (PO.1, (r, k) :: PO.2)
  | _ => PO

def scan : Nat → List Ann → List (Nat × Nat) × List (Rnum × Nat) → List (Nat × Nat) × List (Rnum × Nat)
  | _, [], PO => PO
  | k, x :: xs, PO => scan (k + 1) xs (scanStep k x PO)

def closerOf (P : List (Nat × Nat)) (k : Nat) : Option Nat := (P.find? (fun p => p.1 == k)).map (·.2)
def openerOf (P : List (Nat × Nat)) (k : Nat) : Option Nat := (P.find? (fun p => p.2 == k)).map (·.1)

inductive Half
  | bond (b : Bond)
  /-- a ring-closure digit without a partner (so far) -/
  | pending (k : BondKind) (r : Rnum)
  deriving DecidableEq, Repr

def joinAt (A : List Ann) (k : Nat) : Option (BondKind × Nat) :=
  match A[k]? with
  | some ⟨.join b _, some h, _⟩ => some (b, h)
  | _ => none

/-- the half-bond that event `k` contributes to atom `i` -/
def contribH (A : List Ann) (P : List (Nat × Nat)) (i k : Nat) : Option Half :=
  match A[k]? with
  | some ⟨.extend b _, some h, c⟩ =>
    if i = h then some (.bond ⟨b, c⟩) else if i = c then some (.bond ⟨b.reverse, h⟩) else none
  | some ⟨.join b r, some h, _⟩ =>
    if i = h then
      match closerOf P k with
      | some k' =>
        (match joinAt A k' with
         | some (b', h') => (match reconcile b b' with | some (l, _) => some (.bond ⟨l, h'⟩) | none => none)
         | none => none)
      | none =>
        match openerOf P k with
        | some k0 =>
          (match joinAt A k0 with
           | some (b0, h0) => (match reconcile b0 b with | some (_, rt) => some (.bond ⟨rt, h0⟩) | none => none)
           | none => none)
        | none => some (.pending b r)
    else none
  | _ => none

def Half.toBond? : Half → Option Bond
  | .bond b => some b
  | .pending _ _ => none

def kindOfAnn (x : Ann) : Option AtomKind :=
  match x.ev with
  | .root k => some k
  | .extend _ k => some k.invert
  | _ => none

/-- the adjacency list denoted by a history -/
def denote (es : List Event) : Graph :=
  let A := annotate [] 0 es
  let P := (scan 0 A ([], [])).1
  (A.filterMap kindOfAnn).zipIdx.map
    (fun (k, i) => ⟨k, (List.range A.length).filterMap (fun j => (contribH A P i j).bind Half.toBond?)⟩)

end Purr.Spec
