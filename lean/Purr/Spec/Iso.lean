/-
  Purr.Spec.Iso — "the same molecule" (C01): a one-to-one correspondence of atoms that preserves
  element or wildcard, aromatic flag, isotope, charge, atom-map number and hydrogen count, and under
  which every bond exists in both graphs with the same kind as seen from each end.
-/
import Purr.Model.Builder
namespace Purr.Spec
open Purr

/-- what C01 compares of an atom kind: everything but the configuration (C03's subject); an absent
    hydrogen count equals H0 (C07's shorthand) -/
def constitution : AtomKind → AtomKind
  | .bracket b => .bracket { b with configuration := none,
                                    hcount := match b.hcount with | some h => if h.val = 0 then none else some h | none => none }
  | k => k

def Iso (g g' : Graph) (π : Nat → Nat) : Prop :=
  g'.length = g.length ∧
  (∀ a, a < g.length → π a < g.length) ∧
  (∀ a b, a < g.length → b < g.length → π a = π b → a = b) ∧
  ∀ a atom, g[a]? = some atom → ∃ atom', g'[π a]? = some atom' ∧
    constitution atom'.kind = constitution atom.kind ∧
    (atom.bonds.map (fun b => (π b.tid, b.kind))).Perm (atom'.bonds.map (fun b => (b.tid, b.kind)))

end Purr.Spec
