/-
  C04 — The reader accepts exactly the documented SMILES grammar.

  `accepts_iff_grammar`: for EVERY string, `read` accepts it if and only if it is a sentence of the documented
  grammar `Spec.classify` (Purr/Spec/Automaton.lean) — a deterministic character-level automaton with a
  parenthesis counter, written from the property text and the OpenSMILES token tables (element symbols from
  the independent table `Spec.periodicSymbols`), not from the reader: organic-subset atoms, `*`, bracket atoms
  `[` isotope? symbol configuration? hcount? charge? map? `]` (isotope and map of up to three digits, 118
  element symbols, the aromatic symbols b c n o s p se as, configurations @ @@ @TH1-2 @AL1-2 @SP1-3 @TB1-20
  @OH1-30, `H` with an optional digit, charges + - ++ -- ±1..±15), bonds, ring numbers 0-9 / %00-%99, dots and
  parenthesised branches.  Proof (Purr/Lemmas/GrammarEqL.lean, `read_eq_classify`): token by token, every
  token reader consumes exactly the characters the automaton runs through and fails exactly where it has no
  move; the reader's hand-typed symbol tables are shown equal to the periodic table by exhaustive evaluation.
  Also proved: the verdict is a function of the string alone (followers cannot influence it), completeness
  on the writer's image (via T-wr, C09), closure of the accepted language under normalisation.
  The real reader's verdict is additionally compared with `Spec.classify` on every run (field G), and with the
  harness's own reference recogniser.
-/
import Purr.Props.C09
import Purr.Lemmas.AutomatonL
import Purr.Lemmas.GrammarEqL
import Purr.Lemmas.ReaderL
import Purr.Lemmas.BnfL
namespace Purr.C04
open Purr

/-- the language of the reader -/
def Accepted (s : Str) : Prop := (read s).2 = .ok

/-- completeness on the writer's image: every conformant non-empty history has an accepted spelling -/
theorem writer_image_accepted (es : List Event) (h : ConformantNE es) : ∃ t, write? es = some t ∧ Accepted t := by
  obtain ⟨t, hw, hr⟩ := C09.read_write es h
  exact ⟨t, hw, by unfold Accepted; rw [hr]⟩

/-- every single atom, in any spelling the writer produces, is a sentence -/
theorem atom_accepted (k : AtomKind) : Accepted k.text := by
  have := C09.read_write [.root k] ⟨1, rfl⟩
  obtain ⟨t, hw, hr⟩ := this
  have ht : t = k.text := by
    simp [write?, wrun, wstep] at hw; exact hw.symm
  subst ht
  unfold Accepted; rw [hr]

/-- an accepted string's history is conformant, non-empty, and its normal form is accepted again -/
theorem accepted_normal_form (s : Str) (h : Accepted s) :
    ∃ t, write? (read s).1 = some t ∧ Accepted t ∧ (read t).1 = (read s).1.map Event.norm := by
  have hr : read s = ((read s).1, .ok) := by
    unfold Accepted at h; rw [← h]
  obtain ⟨t, hw, hrt⟩ := C09.read_write_read s _ hr
  exact ⟨t, hw, by unfold Accepted; rw [hrt], by rw [hrt]⟩

/-- the verdict is never a panic and always one of: accepted, or refused at a position inside the input -/
theorem verdict_cases (s : Str) : Accepted s ∨ ∃ a, (read s).2 = .fail a := by
  cases h : (read s).2 with
  | ok => exact Or.inl h
  | fail a => exact Or.inr ⟨a, rfl⟩
  | panic p => exact absurd h (run_no_panic _ _ _ p)

/-- the empty string is refused with end-of-line -/
theorem empty_refused : read [] = ([], .fail []) := by
  unfold read
  rw [run.eq_def]
  simp [readAtom, readOrganic, readBracket]

/-- THE READER ACCEPTS EXACTLY THE DOCUMENTED GRAMMAR -/
theorem accepts_iff_grammar (s : Str) : Accepted s ↔ Spec.classify s = .ok := by
  have h := read_eq_classify s
  unfold Accepted
  constructor
  · intro hok; rw [hok] at h; exact h.symm
  · intro hc
    rw [hc] at h
    cases hv : (read s).2 with
    | ok => rfl
    | fail a =>
      rw [hv] at h
      exact absurd h (toSpec_fail_ne_ok _ _)
    | panic p => exact absurd hv (run_no_panic .needRoot [0] s p)

/-- the documented grammar gives every string a verdict, and an error position always lies inside the string -/
theorem grammar_total (s : Str) :
    Spec.classify s = .ok ∨ Spec.classify s = .endOfLine ∨ ∃ i, Spec.classify s = .character i ∧ i < s.length :=
  Spec.classify_total s

/-! non-vacuity: sentences with non-canonical spellings, and non-sentences -/
example : Spec.classify "[13CH3+1]%01C%01.[Na+]".toList = .ok := by decide +kernel
example : Spec.classify "[C@TB20]([O-])(F)(Cl)(Br)I".toList = .ok := by decide +kernel
example : Spec.classify "[C@TB21]".toList = .character 6 := by decide +kernel
example : Spec.classify "C(C".toList = .endOfLine := by decide +kernel

/-- THE READER ACCEPTS EXACTLY THE SENTENCES OF THE PRODUCTIONS IT DOCUMENTS (comments of src/read/read.rs:
    `<smiles> ::= <atom> <body>*`, `<body> ::= <branch> | <split> | <union>`, `<branch> ::= "(" (<dot> | <bond>)?
    <smiles> ")"`, `<split> ::= <dot> <smiles>`, `<union> ::= <bond>? (<smiles> | <rnum>)`), stated as the inductive
    derivation relation `Spec.Bnf.Derives` (Purr/Spec/Bnf.lean) in which `<body>*` may stop anywhere and every optional
    part is a free choice.  Both directions, for every string (Purr/Lemmas/BnfL.lean). -/
theorem accepts_iff_productions (s : Str) : Accepted s ↔ Spec.Bnf.Sentence s := accepted_iff_sentence s

/-- … hence the two formalisations of the documented grammar — productions over the terminals, and the character-level
    automaton that also fixes the terminals — have the same sentences -/
theorem productions_iff_automaton (s : Str) : Spec.Bnf.Sentence s ↔ Spec.classify s = .ok :=
  (accepts_iff_productions s).symm.trans (accepts_iff_grammar s)

/-- everything the string writer produces from a conformant, non-empty history — in particular from any traversal —
    has a derivation in the documented productions -/
theorem writer_image_sentence (es : List Event) (h : ConformantNE es) : ∃ t, write? es = some t ∧ Spec.Bnf.Sentence t := by
  obtain ⟨t, ht, ha⟩ := writer_image_accepted es h
  exact ⟨t, ht, accepted_sentence ha⟩

/-! non-vacuity: a derivation of `C(=O)1.N1` (branch with a bond, ring closure, split), and a string without one -/
example : Spec.Bnf.Sentence ['C', '(', '=', 'O', ')', '1', '.', 'N', '1'] :=
  .smiles (k := .aliphatic .C) (r1 := ['(', '=', 'O', ')', '1', '.', 'N', '1']) rfl
    (.cons (.branchBond (s1 := ['O', ')', '1', '.', 'N', '1']) ⟨.double, by decide, rfl⟩
        (.smiles (k := .aliphatic .O) (r1 := [')', '1', '.', 'N', '1']) rfl .nil))
      (.cons (.ring (n := ⟨1, by decide⟩) (r := ['.', 'N', '1']) rfl)
        (.cons (.split (.smiles (k := .aliphatic .N) (r1 := ['1']) rfl
            (.cons (.ring (n := ⟨1, by decide⟩) (r := []) rfl) .nil))) .nil)))
example : ¬ Spec.Bnf.Sentence ['C', '('] := by
  rw [productions_iff_automaton]; decide +kernel

end Purr.C04
