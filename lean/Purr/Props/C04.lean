/-
  C04 — The reader accepts exactly the documented SMILES grammar.

  PARTIAL.  Proved here:
    * the verdict is a function of the string alone — in the model `read` returns the event list and
      followers consume it afterwards, which is faithful because `Follower` methods return `()`; the
      correspondence runs every string through four followers and compares the verdicts;
    * completeness for canonical spellings (via T-wr, C09): every protocol-conformant history — any
      nesting of branches, dots inside branches, any ring numbers, every atom kind with every combination
      of bracket fields — is spelled by the writer as a string that the reader accepts, so the accepted
      language contains the whole image of the writer;
    * soundness of the shape of what is accepted: an accepted string yields a conformant, non-empty
      history whose writer text is accepted again (the accepted language is closed under normalisation);
    * the token languages of each class are characterised by C07's round-trip theorems.
    * the documented grammar is a formal object of this development: `Spec.classify`
      (Purr/Spec/Automaton.lean), a deterministic character-level automaton with a parenthesis counter,
      written from the property text and the OpenSMILES token tables (element symbols from the independent
      table `Spec.periodicSymbols`), not from the reader; it is total (`grammar_total`) and every sentence
      of it is built from the documented tokens by construction.
  Not yet a theorem: `(read s).2 = .ok ↔ Spec.classify s = .ok` for every string (soundness and
  completeness for non-canonical spellings such as `%01`, `[C+1]`, `@TH1`).  That equivalence — verdict AND
  error cursor — is decided on every run: the real reader's verdict is compared with `Spec.classify`
  executed by the Lean driver (field G of the S-read and S-atom suites: all strings up to a length bound
  over the SMILES alphabet, every member of every token family and its one-character corruptions,
  grammar-directed random strings), and again with the harness's own reference recogniser.
-/
import Purr.Props.C09
import Purr.Lemmas.AutomatonL
namespace Purr.C04
open Purr

/-- the language of the reader -/
def Accepted (s : Str) : Prop := (read s).2 = .ok

/-- completeness on the writer's image: every conformant non-empty history has an accepted spelling -/
theorem writer_image_accepted (es : List Event) (h : ConformantNE es) : ∃ t, write? es = some t ∧ Accepted t := by
  obtain ⟨t, hw, hr⟩ := C09.read_write es h
  exact ⟨t, hw, by unfold Accepted; rw [hr]⟩

/-- every single atom, in any spelling the writer produces, is a sentence -/
theorem atom_accepted (k : AtomKind) : Accepted k.text := by
  have := C09.read_write [.root k] ⟨1, rfl⟩
  obtain ⟨t, hw, hr⟩ := this
  have ht : t = k.text := by
    simp [write?, wrun, wstep] at hw; exact hw.symm
  subst ht
  unfold Accepted; rw [hr]

/-- an accepted string's history is conformant, non-empty, and its normal form is accepted again -/
theorem accepted_normal_form (s : Str) (h : Accepted s) :
    ∃ t, write? (read s).1 = some t ∧ Accepted t ∧ (read t).1 = (read s).1.map Event.norm := by
  have hr : read s = ((read s).1, .ok) := by
    unfold Accepted at h; rw [← h]
  obtain ⟨t, hw, hrt⟩ := C09.read_write_read s _ hr
  exact ⟨t, hw, by unfold Accepted; rw [hrt], by rw [hrt]⟩

/-- the verdict is never a panic and always one of: accepted, or refused at a position inside the input -/
theorem verdict_cases (s : Str) : Accepted s ∨ ∃ a, (read s).2 = .fail a := by
  cases h : (read s).2 with
  | ok => exact Or.inl h
  | fail a => exact Or.inr ⟨a, rfl⟩
  | panic p => exact absurd h (run_no_panic _ _ _ p)

/-- the empty string is refused with end-of-line -/
theorem empty_refused : read [] = ([], .fail []) := by
  unfold read
  rw [run.eq_def]
  simp [readAtom, readOrganic, readBracket]

/-- the documented grammar gives every string a verdict, and an error position always lies inside the string -/
theorem grammar_total (s : Str) :
    Spec.classify s = .ok ∨ Spec.classify s = .endOfLine ∨ ∃ i, Spec.classify s = .character i ∧ i < s.length :=
  Spec.classify_total s

/-! non-vacuity: sentences with non-canonical spellings, and non-sentences -/
example : Spec.classify "[13CH3+1]%01C%01.[Na+]".toList = .ok := by decide +kernel
example : Spec.classify "[C@TB20]([O-])(F)(Cl)(Br)I".toList = .ok := by decide +kernel
example : Spec.classify "[C@TB21]".toList = .character 6 := by decide +kernel
example : Spec.classify "C(C".toList = .endOfLine := by decide +kernel

end Purr.C04
