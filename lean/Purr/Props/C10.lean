/-
  C10 — A successful build is a well-formed simple graph; build errors are real.
-/
import Purr.Lemmas.BuilderL
import Purr.Props.C11
import Purr.Props.C09
import Purr.Lemmas.BuildErrL
import Purr.Lemmas.JoinPairL
import Purr.Lemmas.DenoteL
import Purr.Lemmas.JoinReasonL
import Purr.Lemmas.ScanParityL
namespace Purr.C10
open Purr Purr.Spec

/-- a protocol-conformant history never drives the builder into one of its panics
    (headless extend/join, index out of range, `expect("edge for rnum")`) -/
theorem build_no_panic (es : List Event) (h : Conformant es) : (build? es).isSome := by
  have := brun_safe es BSafe.init h
  unfold build?
  cases hb : brun .init es with
  | none => rw [hb] at this; cases this
  | some s => rfl

/-- whenever building succeeds the adjacency list has no atom bonded to itself, at most one bond
    between any two atoms, every bond present on both ends with mutually reversed kinds and all targets
    in range -/
theorem build_ok_wellformed (es : List Event) (h : Conformant es) (g : Graph)
    (hb : build? es = some (.ok g)) : WellFormed g := by
  unfold build? at hb
  cases hr : brun .init es with
  | none => rw [hr] at hb; cases hb
  | some s =>
    rw [hr] at hb
    simp only [Option.map_some, Option.some.injEq] at hb
    exact build_wellformed (brun_idwf es BSafe.init IdWFv.init h hr) hb

/-- … so the traversal accepts it: the validation pre-pass finds no defect and no error is returned -/
theorem build_ok_walkable (es : List Event) (h : Conformant es) (g : Graph) (hb : build? es = some (.ok g)) :
    validate g = none ∧ ∀ e, (walk g).2 ≠ .err e := by
  have hw := build_ok_wellformed es h g hb
  exact ⟨(C11.validate_iff_wellformed g).mpr hw, C11.wellformed_not_rejected g hw⟩

/-- every accepted string: if its graph builds, the graph is well-formed -/
theorem read_build_wellformed (s : Str) (g : Graph) (hr : (read s).2 = .ok)
    (hb : build? (read s).1 = some (.ok g)) : WellFormed g :=
  build_ok_wellformed _ (C08.reader_conformant s) g hb

/-- the two ends of a ring closure: what `reconcile` returns, as the property states it — an elided side
    takes the kind written on the other side (seen reversed for a directional bond), equal non-directional
    kinds agree, `/` meets `\`, everything else is irreconcilable -/
def reconcileSpec (l r : BondKind) : Option (BondKind × BondKind) :=
  if l = .elided then some (r.reverse, r)
  else if r = .elided then some (l, l.reverse)
  else if l = r.reverse then some (l, r)
  else none

theorem reconcile_table (l r : BondKind) : reconcile l r = reconcileSpec l r := by
  cases l <;> cases r <;> rfl

/-- both ends of a reconciled closure see mutually reversed kinds -/
theorem reconcile_reversed {l r a b : BondKind} (h : reconcile l r = some (a, b)) : a = b.reverse :=
  reconcile_some_rev h

/-- a `Join` error is only ever recorded by a closing ring digit, and names the head atom and the atom
    that opened the ring number -/
theorem join_error_origin (s s' : BState) (e : Event) (hb : bstep s e = some s') (a b : Nat)
    (hnew : BuildError.join a b ∈ s'.errors) (hold : BuildError.join a b ∉ s.errors) :
    ∃ bk r, e = .join bk r ∧ s.stack.head? = some a ∧ s.opens.lookup r = some b := by
  cases e with
  | root k => simp only [bstep] at hb; cases hb; exact absurd hnew hold
  | extend bk k =>
    simp only [bstep] at hb
    split at hb
    · cases hb
    · split at hb
      · cases hb; exact absurd hnew hold
      · cases hb
  | pop d => simp only [bstep] at hb; cases hb; exact absurd hnew hold
  | join bk r =>
    simp only [bstep] at hb
    split at hb
    · cases hb
    · rename_i sid rest hst
      split at hb
      · split at hb
        · rename_i tid hl
          split at hb
          · cases hb
          · split at hb
            · cases hb
            · split at hb
              · cases hb
                simp only [List.mem_append, List.mem_singleton] at hnew
                rcases hnew with h | h
                · exact absurd h hold
                · cases h; exact ⟨bk, r, rfl, by simp [hst], hl⟩
              · split at hb
                · cases hb; exact absurd hnew hold
                · cases hb
                  simp only [List.mem_append, List.mem_singleton] at hnew
                  rcases hnew with h | h
                  · exact absurd h hold
                  · cases h; exact ⟨bk, r, rfl, by simp [hst], hl⟩
        · cases hb; exact absurd hnew hold
      · cases hb

/-! ### the second sentence of the property: when and why building fails (Purr/Lemmas/BuildErrL.lean) -/

/-- A `Join(a, c)` ERROR IS REAL: it was recorded by a closing ring digit, written while atom `a` was the head, for a
    ring opened on atom `c` — in a state without earlier errors — and that closure really cannot be made: `a = c` (a
    self-bond), `a` and `c` are bonded already (a second bond), or the kinds written at the two ends are irreconcilable
    (`JoinDefect`) -/
theorem build_join_error_is_real (es : List Event) (a c : Nat) (h : build? es = some (.error (.join a c))) :
    ∃ pre bk r post s1, es = pre ++ .join bk r :: post ∧ brun .init pre = some s1 ∧ s1.errors = [] ∧ JoinDefect s1 bk r a c := by
  unfold build? at h
  cases hr : brun .init es with
  | none => rw [hr] at h; cases h
  | some s =>
    rw [hr] at h
    simp only [Option.map_some, Option.some.injEq] at h
    unfold BState.build at h
    cases he : s.errors with
    | nil =>
      rw [he] at h
      obtain ⟨i, hi, _⟩ := buildNodes_error h
      cases hi
    | cons e0 l =>
      rw [he] at h
      simp only [Except.error.injEq] at h
      subst h
      obtain ⟨pre, ev, post, s1, h1, h2, h3, a', c', ⟨bk, r, rfl, hd⟩, h5⟩ := brun_first_error es hr rfl he
      cases h5
      exact ⟨pre, bk, r, post, s1, h1, h2, h3, hd⟩

/-- THE REPORTED PAIR AND THE REASON, READ OFF THE HISTORY (no builder state in the statement): if building fails with
    `Join(a, c)`, then the history has a ring-closure digit with some number `r` and bond kind `bk`, written while atom
    `a` was the head (`Spec.replay`: the path stack after the events before it), at a moment when the pairing rule "a
    digit closes the nearest preceding open digit of the same number" (`Spec.scan`) had digit `k` open for `r` — and
    digit `k` was written, with bond kind `bk0`, while atom `c` was the head.  So `(a, c)` are the two atoms of one ring
    closure of the written text.  And that closure cannot be made, for one of the three reasons the property allows:
    `a = c` (a self-bond); or the events before it already give `c` a bond to `a` (`Spec.contribH`: a second bond); or
    the kinds written at the two digits are irreconcilable.  And it is the FIRST such defect of the history: no earlier
    ring digit meets one. -/
theorem build_join_error_is_a_written_closure (es : List Event) (a c : Nat) (h : build? es = some (.error (.join a c))) :
    ∃ pre bk r post k bk0, es = pre ++ .join bk r :: post ∧
      (Spec.replay [] 0 pre).1.head? = some a ∧
      (Spec.scan 0 (Spec.annotate [] 0 pre) ([], [])).2.lookup r = some k ∧
      Spec.joinAt (Spec.annotate [] 0 pre) k = some (bk0, c) ∧
      (a = c ∨
       (∃ j b, Spec.contribH (Spec.annotate [] 0 pre) (Spec.scan 0 (Spec.annotate [] 0 pre) ([], [])).1 c j = some (.bond ⟨b, a⟩)) ∨
       reconcile bk0 bk = none) ∧
      (∀ p2 bk2 r2 q2 a2 c2, pre = p2 ++ .join bk2 r2 :: q2 → ¬ HistDefect p2 bk2 r2 a2 c2) := by
  obtain ⟨pre, bk, r, post, s1, hsplit, hpre, herr, hdef⟩ := build_join_error_is_real es a c h
  have hinv : DInv pre s1 := by simpa using DInv.run pre DInv.init hpre herr
  obtain ⟨k, bk0, h1, h2, h3, h4⟩ := joinDefect_history hinv hdef
  refine ⟨pre, bk, r, post, k, bk0, hsplit, h1, h2, h3, h4, ?_⟩
  -- it is the FIRST defect of the history
  intro p2 bk2 r2 q2 a2 c2 hsp hd2
  have hnone := (brun_no_error_iff pre hpre rfl).mp herr
  have hrun := hpre
  rw [hsp, brun_append] at hrun
  cases hp2 : brun .init p2 with
  | none => rw [hp2] at hrun; cases hrun
  | some s2 =>
    rw [hp2] at hrun
    simp only [Option.bind_some] at hrun
    obtain ⟨l, hl⟩ := brun_errors hrun
    have he2 : s2.errors = [] := by
      rw [herr] at hl
      cases h1 : s2.errors with
      | nil => rfl
      | cons x xs => rw [h1] at hl; cases hl
    have hinv2 : DInv p2 s2 := by simpa using DInv.run p2 DInv.init hp2 he2
    exact hnone p2 (.join bk2 r2) q2 s2 hsp hp2 a2 c2 ⟨bk2, r2, rfl, history_joinDefect hinv2 hd2⟩

/-- the three reasons are not vacuous: `C11` (self-bond), `C1C1` (second bond), `C=1CC#1` (irreconcilable) fail with `Join` -/
example : build? [.root .star, .join .elided ⟨1, by decide⟩, .join .elided ⟨1, by decide⟩] = some (.error (.join 0 0)) := rfl
example : build? [.root .star, .join .elided ⟨1, by decide⟩, .extend .elided .star, .join .elided ⟨1, by decide⟩]
    = some (.error (.join 1 0)) := rfl
example : build? [.root .star, .join .double ⟨1, by decide⟩, .extend .elided .star, .extend .elided .star, .join .triple ⟨1, by decide⟩]
    = some (.error (.join 2 0)) := rfl

/-- AN `Rnum(i)` ERROR IS REAL: the `i`-th ring-closure digit of the history exists, no later digit carries its number,
    and that number has been written an odd number of times — under the pairing rule "a digit closes the nearest
    preceding open digit of the same number, otherwise it opens" it is an opening that is never answered -/
theorem build_rnum_error_is_real (es : List Event) (i : Nat) (h : build? es = some (.error (.rnum i))) :
    ∃ b r, (writtenJoins es)[i]? = some (b, r) ∧ (∀ j, i < j → ((writtenJoins es)[j]?).map (·.2) ≠ some r) ∧
      countR es r % 2 = 1 := by
  unfold build? at h
  cases hr : brun .init es with
  | none => rw [hr] at h; cases h
  | some s =>
    rw [hr] at h
    simp only [Option.map_some, Option.some.injEq] at h
    unfold BState.build at h
    cases he : s.errors with
    | cons e0 l =>
      rw [he] at h
      simp only [Except.error.injEq] at h
      subst h
      obtain ⟨_, _, _, _, _, _, _, a', c', _, h5⟩ := brun_first_error es hr rfl he
      cases h5
    | nil =>
      rw [he] at h
      have hinv : PInv es s := by simpa using PInv.run es PInv.init hr he
      obtain ⟨i', hi, x, node, hx, e, hem, x', r, ht⟩ := buildNodes_error h
      cases hi
      obtain ⟨h1, h2, h3⟩ := hinv.ph.1 x node.edges e i x' r (view_get hx) hem ht
      refine ⟨e.kind, r, h2, h3, ?_⟩
      have := hinv.par r
      rw [h1] at this
      simpa using this.symm

/-- BUILDING FAILS EXACTLY WHEN a closing ring digit meets a defect (self-bond, second bond, irreconcilable kinds) or a
    ring digit is left unmatched: for every conformant history, `build` returns a graph if and only if no step meets a
    `JoinDefect` and every ring number has been written an even number of times -/
theorem build_succeeds_iff (es : List Event) (hc : Conformant es) :
    (∃ g, build? es = some (.ok g)) ↔
      ((∀ pre ev post s1, es = pre ++ ev :: post → brun .init pre = some s1 → ∀ a c, ¬ Defect s1 ev a c) ∧
       ∀ r, countR es r % 2 = 0) := by
  unfold Conformant at hc
  obtain ⟨ps', hps⟩ := Option.isSome_iff_exists.mp hc
  obtain ⟨s, hr, hsafe⟩ := brun_bsafe es BSafe.init hps
  have hbuild : build? es = some s.build := by unfold build?; rw [hr]; rfl
  rw [hbuild]
  have hiff := brun_no_error_iff es hr rfl
  constructor
  · rintro ⟨g, hg⟩
    simp only [Option.some.injEq] at hg
    have he : s.errors = [] := by
      unfold BState.build at hg
      cases he : s.errors with
      | nil => rfl
      | cons e l => rw [he] at hg; cases hg
    have hbn : buildNodes s.graph = .ok g := by unfold BState.build at hg; rw [he] at hg; exact hg
    refine ⟨hiff.mp he, ?_⟩
    have hinv : PInv es s := by simpa using PInv.run es PInv.init hr he
    intro r
    have hnone : s.opens.lookup r = none := by
      cases hl : s.opens.lookup r with
      | none => rfl
      | some t =>
        exfalso
        obtain ⟨tn, htn, hf⟩ := hsafe.opens r t (lookup_mem hl)
        obtain ⟨edge, hedge⟩ := Option.isSome_iff_exists.mp hf
        obtain ⟨hem, heo⟩ := find_mem_filter hedge
        obtain ⟨i, x, ht⟩ := isOpenFor_target heo
        obtain ⟨bs, hbs, _⟩ := (buildNodes_ok hbn t).1 tn htn
        obtain ⟨_, hall⟩ := nodeBonds_ok hbs
        obtain ⟨t', ht'⟩ := hall edge hem
        rw [ht] at ht'; cases ht'
    have := hinv.par r
    rw [hnone] at this
    have h2 : ¬ (countR es r % 2 = 1) := by simpa using this.symm
    omega
  · rintro ⟨hno, heven⟩
    have he : s.errors = [] := hiff.mpr hno
    have hinv : PInv es s := by simpa using PInv.run es PInv.init hr he
    have hall : ∀ (x : Nat) (node : Node), s.graph[x]? = some node → ∀ e ∈ node.edges, ∃ t, e.target = Target.id t := by
      intro x node hx e hem
      cases ht : e.target with
      | id t => exact ⟨t, rfl⟩
      | rnum i x' r =>
        exfalso
        obtain ⟨h1, _, _⟩ := hinv.ph.1 x node.edges e i x' r (view_get hx) hem ht
        have := hinv.par r
        rw [h1, heven r] at this
        simp at this
    obtain ⟨g, hg⟩ := buildNodes_total hall
    exact ⟨g, by unfold BState.build; rw [he]; simp [hg]⟩

/-- BUILDING FAILS EXACTLY WHEN …, READ OFF THE HISTORY (no builder state in the statement).  `HistDefect pre bk r a c`
    says, about the written events `pre` alone: `a` is the head atom after `pre`; the pairing rule has a digit open for
    `r`, written at head `c` with some kind `bk0`; and `a = c`, or `pre` already gives `c` a bond to `a`, or `bk0` and `bk`
    are irreconcilable.  For every conformant history, `build` returns a graph if and only if no ring-closure digit of
    the history meets such a defect and every ring number is written an even number of times. -/
theorem build_succeeds_iff_written (es : List Event) (hc : Conformant es) :
    (∃ g, build? es = some (.ok g)) ↔
      ((∀ pre bk r post a c, es = pre ++ .join bk r :: post → ¬ HistDefect pre bk r a c) ∧
       ∀ r, countR es r % 2 = 0) := by
  constructor
  · intro hok
    obtain ⟨hno, heven⟩ := (build_succeeds_iff es hc).mp hok
    refine ⟨?_, heven⟩
    intro pre bk r post a c hsplit hd
    obtain ⟨g, hg⟩ := hok
    unfold build? at hg
    cases hr : brun .init es with
    | none => rw [hr] at hg; cases hg
    | some s =>
      rw [hr] at hg
      simp only [Option.map_some, Option.some.injEq] at hg
      have he : s.errors = [] := by
        unfold BState.build at hg
        cases he : s.errors with
        | nil => rfl
        | cons e l => rw [he] at hg; cases hg
      rw [hsplit, brun_append] at hr
      cases hp : brun .init pre with
      | none => rw [hp] at hr; cases hr
      | some s1 =>
        rw [hp] at hr
        simp only [Option.bind_some] at hr
        obtain ⟨l, hl⟩ := brun_errors hr
        have he1 : s1.errors = [] := by
          rw [he] at hl
          cases h1 : s1.errors with
          | nil => rfl
          | cons x xs => rw [h1] at hl; cases hl
        have hinv : DInv pre s1 := by simpa using DInv.run pre DInv.init hp he1
        exact hno pre (.join bk r) post s1 hsplit hp a c ⟨bk, r, rfl, history_joinDefect hinv hd⟩
  · rintro ⟨hno, heven⟩
    have hsome := build_no_panic es hc
    obtain ⟨x, hx⟩ := Option.isSome_iff_exists.mp hsome
    cases x with
    | ok g => exact ⟨g, hx⟩
    | error e =>
      exfalso
      cases e with
      | join a c =>
        obtain ⟨pre, bk, r, post, s1, hsplit, hpre, herr, hdef⟩ := build_join_error_is_real es a c hx
        have hinv : DInv pre s1 := by simpa using DInv.run pre DInv.init hpre herr
        exact hno pre bk r post a c hsplit (joinDefect_history hinv hdef)
      | rnum i =>
        obtain ⟨b, r, _, _, hodd⟩ := build_rnum_error_is_real es i hx
        have := heven r
        omega

/-- "LEFT UNMATCHED", IN THE VOCABULARY OF THE PAIRING RULE: for every history, a ring number is open at the end of the
    left-to-right pairing scan (a digit closes the nearest preceding open digit of the same number, otherwise it opens)
    exactly when it has been written an odd number of times — so "every number is written an even number of times" says
    "no ring-closure digit is left unmatched" -/
theorem unmatched_iff_odd (es : List Event) (r : Rnum) :
    ((Spec.scan 0 (Spec.annotate [] 0 es) ([], [])).2.lookup r).isSome = true ↔ countR es r % 2 = 1 :=
  scan_open_iff_odd es r

/-- … hence: for every conformant history, `build` returns a graph if and only if no ring-closure digit meets a
    written-history defect and the pairing scan ends with no digit open -/
theorem build_succeeds_iff_nothing_open (es : List Event) (hc : Conformant es) :
    (∃ g, build? es = some (.ok g)) ↔
      ((∀ pre bk r post a c, es = pre ++ .join bk r :: post → ¬ HistDefect pre bk r a c) ∧
       ∀ r, (Spec.scan 0 (Spec.annotate [] 0 es) ([], [])).2.lookup r = none) := by
  rw [build_succeeds_iff_written es hc]
  constructor
  · rintro ⟨h1, h2⟩
    refine ⟨h1, fun r => ?_⟩
    cases hl : (Spec.scan 0 (Spec.annotate [] 0 es) ([], [])).2.lookup r with
    | none => rfl
    | some k =>
      have := (unmatched_iff_odd es r).mp (by rw [hl]; rfl)
      have := h2 r
      omega
  · rintro ⟨h1, h2⟩
    refine ⟨h1, fun r => ?_⟩
    have hn : ¬ countR es r % 2 = 1 := fun h => by
      have := (unmatched_iff_odd es r).mpr h
      rw [h2 r] at this; cases this
    omega

/-- THE TRAVERSAL'S JOINS COME IN MATCHED PAIRS (C08, stated on the event stream itself): for every well-formed adjacency
    list, in the events the traversal hands to a follower every ring number is written an even number of times — each
    opening is answered by exactly one closing — and no closing digit meets a defect: the two ends are never the same
    atom, never already bonded, and their kinds always reconcile. -/
theorem walk_joins_balanced (g : Graph) (hw : WellFormed g) (es : List (Event × Nat)) (ord : List Nat)
    (h : walkRecL g = some (es, ord)) :
    (∀ r, countR (es.map (·.1)) r % 2 = 0) ∧
    ∀ pre ev post s1, es.map (·.1) = pre ++ ev :: post → brun .init pre = some s1 → ∀ a c, ¬ Defect s1 ev a c := by
  obtain ⟨g', hb, _⟩ := rtc g hw es ord h
  have hconf : Conformant (es.map (·.1)) := conformant_of_walkRec g es ord h
  have := (build_succeeds_iff _ hconf).mp ⟨g', hb⟩
  exact ⟨this.2, this.1⟩

/-- THE TWO JOINS OF A RING NUMBER SIT ON THE TWO ATOMS OF A BOND: in the events of the traversal of a well-formed adjacency
    list, whenever a ring number opened while atom (number) `c` of the stream was the head is written again while atom `a` is
    the head, the atoms of the graph visited `a`-th and `c`-th are bonded to each other. -/
theorem walk_join_pairs_are_bonds (g : Graph) (hw : WellFormed g) (es : List (Event × Nat)) (ord : List Nat)
    (h : walkRecL g = some (es, ord)) (pre post : List Event) (bk : BondKind) (r : Rnum) (s1 : BState) (a c : Nat)
    (hsplit : es.map (·.1) = pre ++ .join bk r :: post) (hpre : brun .init pre = some s1)
    (hhead : s1.stack.head? = some a) (hopen : s1.opens.lookup r = some c) :
    ∃ x y atomX, x ∈ ord ∧ y ∈ ord ∧ pos ord x = a ∧ pos ord y = c ∧ g[x]? = some atomX ∧ ∃ bd ∈ atomX.bonds, bd.tid = y := by
  obtain ⟨g', hb, hrel, hnd, hcov⟩ := rtc g hw es ord h
  have hconf : Conformant (es.map (·.1)) := conformant_of_walkRec g es ord h
  obtain ⟨hnodef, _⟩ := (build_succeeds_iff _ hconf).mp ⟨g', hb⟩
  -- the run through the whole stream
  unfold build? at hb
  cases hrun : brun .init (es.map (·.1)) with
  | none => rw [hrun] at hb; cases hb
  | some sF =>
    rw [hrun] at hb
    simp only [Option.map_some, Option.some.injEq] at hb
    rw [hsplit, brun_append, hpre] at hrun
    simp only [Option.bind_some, brun] at hrun
    cases hstep : bstep s1 (.join bk r) with
    | none => rw [hstep] at hrun; cases hrun
    | some s2 =>
      rw [hstep] at hrun
      simp only at hrun
      have herr : s2.errors = s1.errors := by
        rcases bstep_errors_exact hstep with ⟨hsame, _⟩ | ⟨a', c', hd, _⟩
        · exact hsame
        · exact absurd hd (hnodef pre _ post s1 hsplit hpre a' c')
      have hbond2 := bstep_close_records hstep hhead hopen herr
      obtain ⟨esF, hvF, ed, hedF, htF⟩ := brun_keeps_id post hrun hbond2
      -- the built graph
      have heF : sF.errors = [] := by
        unfold BState.build at hb
        cases he : sF.errors with
        | nil => rfl
        | cons e l => rw [he] at hb; cases hb
      have hbn : buildNodes sF.graph = .ok g' := by unfold BState.build at hb; rw [heF] at hb; exact hb
      obtain ⟨nA, hnA, hneA⟩ := view_some hvF
      obtain ⟨bs, hbs, hgA⟩ := (buildNodes_ok hbn a).1 nA hnA
      obtain ⟨hbseq, _⟩ := nodeBonds_ok hbs
      have hmemA : (⟨ed.kind, c⟩ : Bond) ∈ bs := by
        rw [hbseq]
        refine List.mem_map.mpr ⟨ed, by rw [hneA]; exact hedF, ?_⟩
        simp [toBond, tidOf, htF]
      -- back to the original graph through the relabelling
      have ha : a < ord.length := by
        rw [← hrel.1]
        apply Nat.lt_of_not_le; intro hge
        rw [List.getElem?_eq_none_iff.mpr hge] at hgA; cases hgA
      have hxa : pos ord ord[a] = a := by unfold pos; exact List.Nodup.idxOf_getElem hnd a ha
      obtain ⟨atomX, arr, hgx, _, hg'x⟩ := hrel.2 ord[a] (List.getElem_mem ha)
      rw [hxa, hgA] at hg'x
      simp only [Option.some.injEq, Atom.mk.injEq] at hg'x
      rw [hg'x.2] at hmemA
      obtain ⟨bd, hbd, hbdeq⟩ := List.mem_map.mp hmemA
      simp only [Bond.mk.injEq] at hbdeq
      have hbdX : bd ∈ atomX.bonds := (arrivalFirst_perm arr atomX.bonds).subset hbd
      have hbdord : bd.tid ∈ ord := by
        obtain ⟨_, _, tatom, htat, _⟩ := hw _ atomX hgx bd hbdX
        apply (hcov bd.tid).mp
        apply Nat.lt_of_not_le; intro hge
        rw [List.getElem?_eq_none_iff.mpr hge] at htat; cases htat
      exact ⟨ord[a], bd.tid, atomX, List.getElem_mem ha, hbdord, hxa, hbdeq.2, hgx, bd, hbdX, rfl⟩

/-- the two walk theorems above, with the builder state eliminated from the statement: in the events of a traversal of
    a well-formed adjacency list, every ring number is written an even number of times and no ring-closure digit meets
    a written-history defect (`HistDefect`) -/
theorem walk_joins_balanced_written (g : Graph) (hw : WellFormed g) (es : List (Event × Nat)) (ord : List Nat)
    (h : walkRecL g = some (es, ord)) :
    (∀ pre bk r post a c, es.map (·.1) = pre ++ .join bk r :: post → ¬ HistDefect pre bk r a c) ∧
    ∀ r, countR (es.map (·.1)) r % 2 = 0 := by
  obtain ⟨g', hb, _⟩ := rtc g hw es ord h
  have hconf : Conformant (es.map (·.1)) := conformant_of_walkRec g es ord h
  exact (build_succeeds_iff_written _ hconf).mp ⟨g', hb⟩

/-- … and each closing digit's pair, read off the written events: if the closing digit is written at head `a`
    (`Spec.replay`) while the pairing scan has digit `k` open for its number, and digit `k` was written at head `c`, then
    the atoms visited `a`-th and `c`-th are bonded in the graph -/
theorem walk_join_pairs_are_bonds_written (g : Graph) (hw : WellFormed g) (es : List (Event × Nat)) (ord : List Nat)
    (h : walkRecL g = some (es, ord)) (pre post : List Event) (bk bk0 : BondKind) (r : Rnum) (a c k : Nat)
    (hsplit : es.map (·.1) = pre ++ .join bk r :: post)
    (hhead : (Spec.replay [] 0 pre).1.head? = some a)
    (hopen : (Spec.scan 0 (Spec.annotate [] 0 pre) ([], [])).2.lookup r = some k)
    (hk : Spec.joinAt (Spec.annotate [] 0 pre) k = some (bk0, c)) :
    ∃ x y atomX, x ∈ ord ∧ y ∈ ord ∧ pos ord x = a ∧ pos ord y = c ∧ g[x]? = some atomX ∧ ∃ bd ∈ atomX.bonds, bd.tid = y := by
  obtain ⟨g', hb, _⟩ := rtc g hw es ord h
  have hb0 := hb
  unfold build? at hb
  cases hrun : brun .init (es.map (·.1)) with
  | none => rw [hrun] at hb; cases hb
  | some sF =>
    rw [hrun] at hb
    simp only [Option.map_some, Option.some.injEq] at hb
    have heF : sF.errors = [] := by
      unfold BState.build at hb
      cases he : sF.errors with
      | nil => rfl
      | cons e l => rw [he] at hb; cases hb
    rw [hsplit, brun_append] at hrun
    cases hp : brun .init pre with
    | none => rw [hp] at hrun; cases hrun
    | some s1 =>
      rw [hp] at hrun
      simp only [Option.bind_some] at hrun
      obtain ⟨l, hl⟩ := brun_errors hrun
      have he1 : s1.errors = [] := by
        rw [heF] at hl
        cases h1 : s1.errors with
        | nil => rfl
        | cons x xs => rw [h1] at hl; cases hl
      have hinv : DInv pre s1 := by simpa using DInv.run pre DInv.init hp he1
      have h1 : s1.stack.head? = some a := by rw [hinv.stk]; exact hhead
      have h2 : s1.opens.lookup r = some c := by
        rw [hinv.opn r]
        show (((Spec.scan 0 (Spec.annotate [] 0 pre) ([], [])).2.lookup r).bind
          (fun k => (Spec.joinAt (Spec.annotate [] 0 pre) k).map (·.2))) = some c
        rw [hopen]; simp [hk]
      exact walk_join_pairs_are_bonds g hw es ord h pre post bk r s1 a c hsplit hp h1 h2

/-- every prefix of the events of a successful traversal is an error-free builder run satisfying the prefix invariant -/
theorem walk_prefix_dinv (g : Graph) (hw : WellFormed g) (es : List (Event × Nat)) (ord : List Nat)
    (h : walkRecL g = some (es, ord)) (pre post : List Event) (hsplit : es.map (·.1) = pre ++ post) :
    ∃ s1, brun .init pre = some s1 ∧ DInv pre s1 := by
  obtain ⟨g', hb, _⟩ := rtc g hw es ord h
  unfold build? at hb
  cases hrun : brun .init (es.map (·.1)) with
  | none => rw [hrun] at hb; cases hb
  | some sF =>
    rw [hrun] at hb
    simp only [Option.map_some, Option.some.injEq] at hb
    have heF : sF.errors = [] := by
      unfold BState.build at hb
      cases he : sF.errors with
      | nil => rfl
      | cons e l => rw [he] at hb; cases hb
    rw [hsplit, brun_append] at hrun
    cases hp : brun .init pre with
    | none => rw [hp] at hrun; cases hrun
    | some s1 =>
      rw [hp] at hrun
      simp only [Option.bind_some] at hrun
      obtain ⟨l, hl⟩ := brun_errors hrun
      have he1 : s1.errors = [] := by
        rw [heF] at hl
        cases h1 : s1.errors with
        | nil => rfl
        | cons x xs => rw [h1] at hl; cases hl
      exact ⟨s1, rfl, by simpa using DInv.run pre DInv.init hp he1⟩

/-- THE PAIRING CLAUSE OF C08 WITH NOTHING ASSUMED ABOUT THE OPEN DIGIT: in the events of a traversal of a well-formed
    adjacency list, whenever a ring digit is written at head `a` while the pairing scan has digit `k` open for its number,
    digit `k` IS a ring-closure digit of the stream, written at some head `c` — and the atoms visited `a`-th and `c`-th are
    bonded in the graph: one join on each atom of the bond -/
theorem walk_closing_digit_joins_bonded_atoms (g : Graph) (hw : WellFormed g) (es : List (Event × Nat)) (ord : List Nat)
    (h : walkRecL g = some (es, ord)) (pre post : List Event) (bk : BondKind) (r : Rnum) (a k : Nat)
    (hsplit : es.map (·.1) = pre ++ .join bk r :: post)
    (hhead : (Spec.replay [] 0 pre).1.head? = some a)
    (hopen : (Spec.scan 0 (Spec.annotate [] 0 pre) ([], [])).2.lookup r = some k) :
    ∃ bk0 c, Spec.joinAt (Spec.annotate [] 0 pre) k = some (bk0, c) ∧
      ∃ x y atomX, x ∈ ord ∧ y ∈ ord ∧ pos ord x = a ∧ pos ord y = c ∧ g[x]? = some atomX ∧ ∃ bd ∈ atomX.bonds, bd.tid = y := by
  obtain ⟨s1, _, hinv⟩ := walk_prefix_dinv g hw es ord h pre (.join bk r :: post) hsplit
  have hq : (r, k) ∈ (scanPO pre).2 := lookup_mem' hopen
  obtain ⟨_, b', t', c', hA⟩ := hinv.sb (r, k) hq
  simp only at hA
  have hj : Spec.joinAt (Spec.annotate [] 0 pre) k = some (b', t') := by
    show Spec.joinAt (annA pre) k = some (b', t')
    unfold Spec.joinAt; rw [hA]
  exact ⟨b', t', hj, walk_join_pairs_are_bonds_written g hw es ord h pre post bk b' r a t' k hsplit hhead hopen hj⟩

/-- the two event-level statements about `walk` ITSELF (the loop mirroring src/walk/walk.rs): its events are those of the
    recursive formulation (`walkRec_of_walk_ok`), so every ring number is written an even number of times, no closing
    digit meets a written-history defect, and each closing digit joins two atoms that are bonded in the graph -/
theorem walk_joins_paired_on_events (g : Graph) (hw : WellFormed g) (hok : (walk g).2 = .ok) :
    (∀ r, countR (walk g).1 r % 2 = 0) ∧
    (∀ pre bk r post a c, (walk g).1 = pre ++ .join bk r :: post → ¬ HistDefect pre bk r a c) ∧
    ∃ ord : List Nat, ord.Nodup ∧ ∀ pre post bk r a k, (walk g).1 = pre ++ .join bk r :: post →
      (Spec.replay [] 0 pre).1.head? = some a →
      (Spec.scan 0 (Spec.annotate [] 0 pre) ([], [])).2.lookup r = some k →
      ∃ bk0 c, Spec.joinAt (Spec.annotate [] 0 pre) k = some (bk0, c) ∧
        ∃ x y atomX, x ∈ ord ∧ y ∈ ord ∧ pos ord x = a ∧ pos ord y = c ∧ g[x]? = some atomX ∧ ∃ bd ∈ atomX.bonds, bd.tid = y := by
  obtain ⟨es, ord, hr, hev⟩ := walkRec_of_walk_ok g hw hok
  obtain ⟨hno, heven⟩ := walk_joins_balanced_written g hw es ord hr
  obtain ⟨g', _, _, hnd, _⟩ := rtc g hw es ord hr
  rw [hev] at hno heven
  refine ⟨heven, hno, ord, hnd, ?_⟩
  intro pre post bk r a k hsplit hhead hopen
  exact walk_closing_digit_joins_bonded_atoms g hw es ord hr pre post bk r a k (by rw [hev]; exact hsplit) hhead hopen

/-! non-vacuity: `C/1CC/1` (irreconcilable kinds) reports `Join(2, 0)`, and in `C1C` digit 0 is unmatched; the theorems
    above apply to both -/
example : build? [.root (.aliphatic .C), .join .up ⟨1, by decide⟩, .extend .elided (.aliphatic .C), .extend .elided (.aliphatic .C),
    .join .up ⟨1, by decide⟩] = some (.error (.join 2 0)) := rfl
example : build? [.root (.aliphatic .C), .join .elided ⟨1, by decide⟩, .extend .elided (.aliphatic .C)] = some (.error (.rnum 0)) := rfl
example : ∃ b r, (writtenJoins [.root (.aliphatic .C), .join .elided ⟨1, by decide⟩, .extend .elided (.aliphatic .C)])[0]? = some (b, r) ∧
    countR [.root (.aliphatic .C), .join .elided ⟨1, by decide⟩, .extend .elided (.aliphatic .C)] r % 2 = 1 := by
  obtain ⟨b, r, h1, _, h3⟩ := build_rnum_error_is_real _ 0 (rfl : build? [.root (.aliphatic .C), .join .elided ⟨1, by decide⟩,
    .extend .elided (.aliphatic .C)] = some (.error (.rnum 0)))
  exact ⟨b, r, h1, h3⟩

/-! non-vacuity: the former defect D9 (`C11`, `C1C1`) is reported, a three-membered ring builds -/
example : build? [.root (.aliphatic .C), .join .elided ⟨1, by decide⟩, .join .elided ⟨1, by decide⟩]
    = some (.error (.join 0 0)) := by rfl
example : build? [.root (.aliphatic .C), .join .elided ⟨1, by decide⟩, .extend .elided (.aliphatic .C), .join .elided ⟨1, by decide⟩]
    = some (.error (.join 1 0)) := by rfl
example : build? [.root .star, .join .up ⟨1, by decide⟩, .extend .elided .star, .extend .elided .star, .join .elided ⟨1, by decide⟩]
    = some (.ok [⟨.star, [⟨.up, 2⟩, ⟨.elided, 1⟩]⟩, ⟨.star, [⟨.elided, 0⟩, ⟨.elided, 2⟩]⟩, ⟨.star, [⟨.elided, 1⟩, ⟨.down, 0⟩]⟩]) := by rfl

end Purr.C10
