/-
  C10 — A successful build is a well-formed simple graph; build errors are real.
-/
import Purr.Lemmas.BuilderL
import Purr.Props.C11
import Purr.Props.C09
namespace Purr.C10
open Purr Purr.Spec

/-- a protocol-conformant history never drives the builder into one of its panics
    (headless extend/join, index out of range, `expect("edge for rnum")`) -/
theorem build_no_panic (es : List Event) (h : Conformant es) : (build? es).isSome := by
  have := brun_safe es BSafe.init h
  unfold build?
  cases hb : brun .init es with
  | none => rw [hb] at this; cases this
  | some s => rfl

/-- whenever building succeeds the adjacency list has no atom bonded to itself, at most one bond
    between any two atoms, every bond present on both ends with mutually reversed kinds and all targets
    in range -/
theorem build_ok_wellformed (es : List Event) (h : Conformant es) (g : Graph)
    (hb : build? es = some (.ok g)) : WellFormed g := by
  unfold build? at hb
  cases hr : brun .init es with
  | none => rw [hr] at hb; cases hb
  | some s =>
    rw [hr] at hb
    simp only [Option.map_some, Option.some.injEq] at hb
    exact build_wellformed (brun_idwf es BSafe.init IdWFv.init h hr) hb

/-- … so the traversal accepts it: the validation pre-pass finds no defect and no error is returned -/
theorem build_ok_walkable (es : List Event) (h : Conformant es) (g : Graph) (hb : build? es = some (.ok g)) :
    validate g = none ∧ ∀ e, (walk g).2 ≠ .err e := by
  have hw := build_ok_wellformed es h g hb
  exact ⟨(C11.validate_iff_wellformed g).mpr hw, C11.wellformed_not_rejected g hw⟩

/-- every accepted string: if its graph builds, the graph is well-formed -/
theorem read_build_wellformed (s : Str) (g : Graph) (hr : (read s).2 = .ok)
    (hb : build? (read s).1 = some (.ok g)) : WellFormed g :=
  build_ok_wellformed _ (C08.reader_conformant s) g hb

/-- the two ends of a ring closure: what `reconcile` returns, as the property states it — an elided side
    takes the kind written on the other side (seen reversed for a directional bond), equal non-directional
    kinds agree, `/` meets `\`, everything else is irreconcilable -/
def reconcileSpec (l r : BondKind) : Option (BondKind × BondKind) :=
  if l = .elided then some (r.reverse, r)
  else if r = .elided then some (l, l.reverse)
  else if l = r.reverse then some (l, r)
  else none

theorem reconcile_table (l r : BondKind) : reconcile l r = reconcileSpec l r := by
  cases l <;> cases r <;> rfl

/-- both ends of a reconciled closure see mutually reversed kinds -/
theorem reconcile_reversed {l r a b : BondKind} (h : reconcile l r = some (a, b)) : a = b.reverse :=
  reconcile_some_rev h

/-- a `Join` error is only ever recorded by a closing ring digit, and names the head atom and the atom
    that opened the ring number -/
theorem join_error_origin (s s' : BState) (e : Event) (hb : bstep s e = some s') (a b : Nat)
    (hnew : BuildError.join a b ∈ s'.errors) (hold : BuildError.join a b ∉ s.errors) :
    ∃ bk r, e = .join bk r ∧ s.stack.head? = some a ∧ s.opens.lookup r = some b := by
  cases e with
  | root k => simp only [bstep] at hb; cases hb; exact absurd hnew hold
  | extend bk k =>
    simp only [bstep] at hb
    split at hb
    · cases hb
    · split at hb
      · cases hb; exact absurd hnew hold
      · cases hb
  | pop d => simp only [bstep] at hb; cases hb; exact absurd hnew hold
  | join bk r =>
    simp only [bstep] at hb
    split at hb
    · cases hb
    · rename_i sid rest hst
      split at hb
      · split at hb
        · rename_i tid hl
          split at hb
          · cases hb
          · split at hb
            · cases hb
            · split at hb
              · cases hb
                simp only [List.mem_append, List.mem_singleton] at hnew
                rcases hnew with h | h
                · exact absurd h hold
                · cases h; exact ⟨bk, r, rfl, by simp [hst], hl⟩
              · split at hb
                · cases hb; exact absurd hnew hold
                · cases hb
                  simp only [List.mem_append, List.mem_singleton] at hnew
                  rcases hnew with h | h
                  · exact absurd h hold
                  · cases h; exact ⟨bk, r, rfl, by simp [hst], hl⟩
        · cases hb; exact absurd hnew hold
      · cases hb

/-! non-vacuity: the former defect D9 (`C11`, `C1C1`) is reported, a three-membered ring builds -/
example : build? [.root (.aliphatic .C), .join .elided ⟨1, by decide⟩, .join .elided ⟨1, by decide⟩]
    = some (.error (.join 0 0)) := by rfl
example : build? [.root (.aliphatic .C), .join .elided ⟨1, by decide⟩, .extend .elided (.aliphatic .C), .join .elided ⟨1, by decide⟩]
    = some (.error (.join 1 0)) := by rfl
example : build? [.root .star, .join .up ⟨1, by decide⟩, .extend .elided .star, .extend .elided .star, .join .elided ⟨1, by decide⟩]
    = some (.ok [⟨.star, [⟨.up, 2⟩, ⟨.elided, 1⟩]⟩, ⟨.star, [⟨.elided, 0⟩, ⟨.elided, 2⟩]⟩, ⟨.star, [⟨.elided, 1⟩, ⟨.down, 0⟩]⟩]) := by rfl

end Purr.C10
