/-
  C07 — Every feature value's text form reads back to the same value.

  `text` functions mirror the Rust `Display` impls, readers mirror src/read/*.rs (both tied to the
  code by the exhaustive S-table / S-atom correspondence).  Only the documented shorthands are
  identified (`norm`): `@`/`@@` stand for both the TH and the AL pair, an absent hydrogen count
  equals H0; numbers are compared by value.
-/
import Purr.Lemmas.TokenL
import Purr.Spec.Periodic
namespace Purr.C07
open Purr

/-! ### each token class reads back, in any context whose next character cannot extend the token -/

theorem symbol_roundtrip (x : BracketSymbol) (rest : Str) (h : Starts NotLower rest) :
    readSymbol (x.text ++ rest) = .ok x rest := readSymbol_text x rest h

theorem configuration_roundtrip (c : Configuration) (rest : Str) (h : Starts AfterCfg rest) :
    readConfiguration (c.text ++ rest) = .ok (some c.norm) rest := readConfiguration_text c rest h

theorem hcount_roundtrip (o : Option VirtualHydrogen) (rest : Str) (h : Starts AfterH rest) :
    readHcount (optText VirtualHydrogen.text o ++ rest) = (hnorm o, rest) := readHcount_text o rest h

theorem charge_roundtrip (q : Charge) (rest : Str) (h : Starts AfterQ rest) :
    readCharge (q.text ++ rest) = .ok (some q) rest := readCharge_text q rest h

theorem isotope_roundtrip (n : Number) (rest : Str) (h : Starts NotDigit rest) :
    readIsotope (n.text ++ rest) = (some n, rest) := readIsotope_text n rest h

theorem map_roundtrip (n : Number) (rest : Str) (h : Starts NotDigit rest) :
    readMap (':' :: n.text ++ rest) = .ok (some n) rest := readMap_text n rest h

theorem rnum_roundtrip (r : Rnum) (rest : Str) : readRnum (r.text ++ rest) = .ok r rest := by
  obtain ⟨v, hv⟩ := r
  simp only [Rnum.text]
  split
  · rename_i h10
    simp [readRnum, isDigit_digitChar' h10, digitVal_digitChar' h10]
  · have a : v / 10 < 10 := by omega
    have b : v % 10 < 10 := by omega
    have hp : isDigit '%' = false := by decide
    simp [readRnum, hp, isDigit_digitChar' a, digitVal_digitChar' a, isDigit_digitChar' b, digitVal_digitChar' b]
    omega

/-- a character that `read_bond` does not take for a bond symbol -/
def NotBondChar (c : Char) : Prop :=
  c ≠ '-' ∧ c ≠ '=' ∧ c ≠ '#' ∧ c ≠ '$' ∧ c ≠ ':' ∧ c ≠ '/' ∧ c ≠ '\\'

theorem bond_roundtrip (b : BondKind) (rest : Str) (h : b = .elided → Starts NotBondChar rest) :
    readBond (b.text ++ rest) = (b, rest) := by
  cases b <;> try rfl
  cases rest with
  | nil => rfl
  | cons d r =>
    obtain ⟨h1, h2, h3, h4, h5, h6, h7⟩ := (h rfl).head
    simp [BondKind.text, readBond, h1, h2, h3, h4, h5, h6, h7]

/-- every bracket atom, all six fields in any combination, in any context -/
theorem bracket_roundtrip (b : Bracket) (rest : Str) :
    readBracket ((AtomKind.bracket b).text ++ rest) = .ok (.bracket b.norm) rest := readBracket_text b rest

/-- every atom kind; an organic symbol must not be followed by `l` or `r` (`C`+`l`, `B`+`r`) -/
theorem atom_roundtrip (k : AtomKind) (rest : Str) (h : Starts NoLR rest) :
    readAtom (k.text ++ rest) = .ok k.norm rest := readAtom_text k rest h

/-! ### two different values never share a spelling (up to the documented shorthands) -/

theorem atom_text_injective {a b : AtomKind} (h : a.text = b.text) : a.norm = b.norm := by
  have ha := readAtom_text a [] Starts.nil
  have hb := readAtom_text b [] Starts.nil
  rw [h, hb] at ha
  exact (Res.ok.inj ha).1.symm

theorem symbol_text_injective {a b : BracketSymbol} (h : a.text = b.text) : a = b := by
  have ha := readSymbol_text a [] Starts.nil
  have hb := readSymbol_text b [] Starts.nil
  rw [h, hb] at ha
  cases ha; rfl

theorem element_text_injective {a b : Element} (h : a.text = b.text) : a = b := by
  have := @symbol_text_injective (.element a) (.element b) h
  cases this; rfl

theorem configuration_text_injective {a b : Configuration} (h : a.text = b.text) : a.norm = b.norm := by
  have ha := readConfiguration_text a [] Starts.nil
  have hb := readConfiguration_text b [] Starts.nil
  rw [h, hb] at ha
  exact (Option.some.inj (Res.ok.inj ha).1).symm

theorem charge_text_injective {a b : Charge} (h : a.text = b.text) : a = b := by
  have ha := readCharge_text a [] Starts.nil
  have hb := readCharge_text b [] Starts.nil
  rw [h, hb] at ha
  cases ha; rfl

theorem hcount_text_injective {a b : VirtualHydrogen} (h : a.text = b.text) : hnorm (some a) = hnorm (some b) := by
  have ha := readHcount_text (some a) [] Starts.nil
  have hb := readHcount_text (some b) [] Starts.nil
  simp only [optText] at ha hb
  rw [h, hb] at ha
  exact (Prod.mk.inj ha).1.symm

theorem rnum_text_injective {a b : Rnum} (h : a.text = b.text) : a = b := by
  have ha := rnum_roundtrip a []
  have hb := rnum_roundtrip b []
  rw [h, hb] at ha
  cases ha; rfl

theorem number_text_injective {a b : Number} (h : a.text = b.text) : a = b := by
  have ha := readIsotope_text a [] Starts.nil
  have hb := readIsotope_text b [] Starts.nil
  rw [h, hb] at ha
  cases ha; rfl

theorem bond_text_injective {a b : BondKind} (h : a.text = b.text) : a = b := by
  cases a <;> cases b <;> simp [BondKind.text] at h <;> rfl

/-- the only identifications made by `norm` are the documented ones -/
theorem norm_identifies_only_shorthands (c d : Configuration) (h : c.norm = d.norm) :
    c = d ∨ (c = .AL1 ∧ d = .TH1) ∨ (c = .TH1 ∧ d = .AL1) ∨ (c = .AL2 ∧ d = .TH2) ∨ (c = .TH2 ∧ d = .AL2) := by
  cases c <;> cases d <;> simp [Configuration.norm] at h <;> simp

theorem hnorm_identifies_only_h0 (a b : Option VirtualHydrogen) (h : hnorm a = hnorm b) :
    a = b ∨ (a = none ∧ ∃ z, b = some z ∧ z.val = 0) ∨ (b = none ∧ ∃ z, a = some z ∧ z.val = 0)
      ∨ (∃ y z, a = some y ∧ b = some z ∧ y.val = 0 ∧ z.val = 0) := by
  cases a with
  | none =>
    cases b with
    | none => exact Or.inl rfl
    | some z =>
      simp only [hnorm] at h
      split at h
      · rename_i hz; exact Or.inr (Or.inl ⟨rfl, z, rfl, hz⟩)
      · cases h
  | some y =>
    cases b with
    | none =>
      simp only [hnorm] at h
      split at h
      · rename_i hy; exact Or.inr (Or.inr (Or.inl ⟨rfl, y, rfl, hy⟩))
      · cases h
    | some z =>
      simp only [hnorm] at h
      split at h <;> split at h
      · rename_i hy hz; exact Or.inr (Or.inr (Or.inr ⟨y, z, rfl, rfl, hy, hz⟩))
      · cases h
      · cases h
      · cases h; exact Or.inl rfl

/-! ### the text is the standard SMILES spelling -/

/-- element symbols are those of the periodic table, in atomic-number order -/
theorem element_standard_spelling : Element.all.map Element.text = Spec.periodicSymbols := by decide +kernel

theorem element_count : Element.all.length = 118 := rfl

theorem configuration_standard_spelling :
    Configuration.TH1.text = ['@'] ∧ Configuration.TH2.text = ['@', '@'] ∧
    Configuration.AL1.text = ['@'] ∧ Configuration.AL2.text = ['@', '@'] ∧
    (∀ n : Fin 30, (Configuration.oh? (n.val + 1)).map Configuration.text = some (['@', 'O', 'H'] ++ natText (n.val + 1))) ∧
    (∀ n : Fin 20, (Configuration.tb? (n.val + 1)).map Configuration.text = some (['@', 'T', 'B'] ++ natText (n.val + 1))) ∧
    (∀ n : Fin 3, (Configuration.sp? (n.val + 1)).map Configuration.text = some (['@', 'S', 'P'] ++ natText (n.val + 1))) := by
  refine ⟨rfl, rfl, rfl, rfl, ?_, ?_, ?_⟩ <;> decide +kernel

/-- a charge is its sign followed by the decimal magnitude, the magnitude 1 being left out -/
theorem charge_standard_spelling (q : Charge) :
    q.text = (if q.val < 0 then '-' else '+') :: (if q.val.natAbs = 1 then [] else natText q.val.natAbs) := rfl

theorem rnum_standard_spelling (r : Rnum) :
    r.text = (if r.val < 10 then natText r.val else '%' :: natText r.val) := by
  have := r.lt
  unfold Rnum.text natText
  split
  · rfl
  · rename_i h
    simp [h, this]

theorem number_standard_spelling (n : Number) : n.text = natText n.val := rfl

theorem bond_standard_spelling :
    BondKind.all.map BondKind.text = [[], ['-'], ['='], ['#'], ['$'], [':'], ['/'], ['\\']] := rfl

/-! ### non-vacuity -/
example : readAtom "[13CH3+:7]".toList = .ok (.bracket ⟨some ⟨13, by decide⟩, .element .C, none, some ⟨3, by decide⟩,
    Charge.ofInt? 1, some ⟨7, by decide⟩⟩) [] := by decide
example : (AtomKind.bracket ⟨none, .element .Cs, some .TB20, some ⟨1, by decide⟩, Charge.ofInt? (-10), none⟩).text
    = "[Cs@TB20H-10]".toList := by decide

end Purr.C07
