/-
  C03 — Round trip preserves stereochemistry.

  Conventions (property text): in the graph an atom's neighbour order is `[H]` (if it has a virtual
  hydrogen) followed by its bond list; in text it is the preceding atom, then `H`, then the rest.
  Writing an atom entered through the bond at index `j` moves that bond to the front: `j` bonds and, if
  present, the hydrogen are passed over — the permutation is odd iff `j + hasH` is odd.  Reading puts the
  hydrogen back before the preceding atom: one more transposition iff `hasH`.

  Stage 3, `stereo_roundtrip`: for EVERY well-formed adjacency list (rings included) on which the traversal
  succeeds (it fails only by running out of ring numbers, D17) the complete round trip walk → write → read → build gives every atom its original kind
  (up to the C07 shorthands) with the `@`/`@@` mark flipped iff the bond it was entered through sits at an
  odd index of its bond list — exactly the sign of the permutation that moves that bond to the front of
  its neighbour order (C12 `substituent_order_forest` gives the re-read order); component roots keep their
  mark; every bond, ring closures included, keeps its kind as seen from each end, so directional bonds keep
  their direction relative to the two atoms they join.  Proof: the simulation of Purr/Lemmas/RtcRing.lean
  (see C01).  `stereo_walk` states it about `walk` itself (Purr/Lemmas/LoopRecL.lean: loop = recursion).

  Stage 1, proved for every atom kind, every bond list and every entry position: the
  walker's local obligation (the kind it hands to the follower), the builder's, and their composition —
  the mark an atom ends up with after write + read is flipped iff the entry index is odd, and every
  configuration other than the `@`/`@@` pairs is carried unchanged.
-/
import Purr.Lemmas.StereoL
import Purr.Props.C01
namespace Purr.C03
open Purr Purr.Spec

/-- STAGE 3.  STEREO MARKS THROUGH THE WHOLE ROUND TRIP, for every well-formed adjacency list (rings included):
    every atom keeps its kind up to the C07 shorthands, with the `@`/`@@` mark flipped iff the bond it was
    entered through sits at an odd index of its bond list; every bond keeps its kind as seen from each end
    (so `/` and `\` keep their direction relative to the two atoms they join). -/
theorem stereo_roundtrip (g : Graph) (hw : WellFormed g) (es : List (Event × Nat)) (ord : List Nat)
    (h : walkRecL g = some (es, ord)) (hne : es ≠ []) :
    ∃ t g', write? (es.map (·.1)) = some t ∧ (read t).2 = .ok ∧ build? (read t).1 = some (.ok g') ∧
      ∀ x atomX, g[x]? = some atomX → ∃ atom', g'[pos ord x]? = some atom' ∧
        ((atom'.kind = atomX.kind.norm ∧ atom'.bonds = atomX.bonds.map (fun b => ⟨b.kind, pos ord b.tid⟩)) ∨
         ∃ pre back post, atomX.bonds = pre ++ back :: post ∧ (∀ o ∈ pre, o.tid ≠ back.tid) ∧
           (∀ o ∈ post, o.tid ≠ back.tid) ∧
           atom'.bonds = (back :: (pre ++ post)).map (fun b => ⟨b.kind, pos ord b.tid⟩) ∧
           atom'.kind = (flipN pre.length atomX.kind).norm) := by
  obtain ⟨t, g1, hw', hok, hb, hrel, hnd, hcov⟩ := C01.roundtrip_relabelled g hw es ord h hne
  refine ⟨t, g1.map normAtom, hw', hok, hb, ?_⟩
  intro x atomX hgx
  have hx : x ∈ ord := (hcov x).mp (by
    apply Nat.lt_of_not_le; intro hge
    rw [List.getElem?_eq_none_iff.mpr hge] at hgx; cases hgx)
  obtain ⟨atomX', hgx', hd⟩ := hrel.detail x hx
  rw [hgx] at hgx'; cases hgx'
  rcases hd with hd | ⟨q, pre, back, post, _, h1, h2, h3, h4, hd⟩
  · exact ⟨_, by rw [List.getElem?_map, hd]; rfl, Or.inl ⟨rfl, rfl⟩⟩
  · subst h2
    exact ⟨_, by rw [List.getElem?_map, hd]; rfl, Or.inr ⟨pre, back, post, h1, h3, h4, rfl, rfl⟩⟩

/-- the same, stated about `walk` itself (the loop mirroring src/walk/walk.rs; see C01.roundtrip_walk) -/
theorem stereo_walk (g : Graph) (hw : WellFormed g) (hok : (walk g).2 = .ok) (hne : (walk g).1 ≠ []) :
    ∃ t g' ord, write? (walk g).1 = some t ∧ (read t).2 = .ok ∧ build? (read t).1 = some (.ok g') ∧
      ∀ x atomX, g[x]? = some atomX → ∃ atom', g'[pos ord x]? = some atom' ∧
        ((atom'.kind = atomX.kind.norm ∧ atom'.bonds = atomX.bonds.map (fun b => ⟨b.kind, pos ord b.tid⟩)) ∨
         ∃ pre back post, atomX.bonds = pre ++ back :: post ∧ (∀ o ∈ pre, o.tid ≠ back.tid) ∧
           (∀ o ∈ post, o.tid ≠ back.tid) ∧
           atom'.bonds = (back :: (pre ++ post)).map (fun b => ⟨b.kind, pos ord b.tid⟩) ∧
           atom'.kind = (flipN pre.length atomX.kind).norm) := by
  obtain ⟨es, ord, hr, hev⟩ := walkRec_of_walk_ok g hw hok
  have hne' : es ≠ [] := by intro e; subst e; simp at hev; exact hne hev
  obtain ⟨t, g', h1, h2, h3, h4⟩ := stereo_roundtrip g hw es ord hr hne'
  exact ⟨t, g', ord, by rw [← hev]; exact h1, h2, h3, h4⟩

/-- STAGE 2 (subsumed by stage 3): the forest case -/
theorem stereo_forest (g : Graph) (hw : WellFormed g) (es : List (Event × Nat)) (ord : List Nat)
    (h : walkRecL g = some (es, ord)) (_hj : ∀ e ∈ es, isJoin e = false) (hne : es ≠ []) :
    ∃ t g', write? (es.map (·.1)) = some t ∧ (read t).2 = .ok ∧ build? (read t).1 = some (.ok g') ∧
      ∀ x atomX, g[x]? = some atomX → ∃ atom', g'[pos ord x]? = some atom' ∧
        ((atom'.kind = atomX.kind.norm ∧ atom'.bonds = atomX.bonds.map (fun b => ⟨b.kind, pos ord b.tid⟩)) ∨
         ∃ pre back post, atomX.bonds = pre ++ back :: post ∧ (∀ o ∈ pre, o.tid ≠ back.tid) ∧
           (∀ o ∈ post, o.tid ≠ back.tid) ∧
           atom'.bonds = (back :: (pre ++ post)).map (fun b => ⟨b.kind, pos ord b.tid⟩) ∧
           atom'.kind = (flipN pre.length atomX.kind).norm) :=
  stereo_roundtrip g hw es ord h hne

/-- normalisation (the C07 shorthands) acts on the configuration only by the documented identification of
    `@`/`@@` for the TH and AL pair, and commutes with flipping: a flipped mark stays flipped -/
theorem norm_configuration (iso : Option Number) (sym : BracketSymbol) (cfg : Option Configuration)
    (hh : Option VirtualHydrogen) (q : Option Charge) (m : Option Number) :
    (AtomKind.bracket ⟨iso, sym, cfg, hh, q, m⟩).norm = .bracket ⟨iso, sym, cfg.map Configuration.norm, hnorm hh, q, m⟩ := rfl

theorem norm_flip_commute (c : Configuration) : c.flip.norm = c.norm.flip := by
  cases c <;> rfl

theorem norm_only_shorthand (c : Configuration) :
    c.norm = c ∨ (c = .AL1 ∧ c.norm = .TH1) ∨ (c = .AL2 ∧ c.norm = .TH2) := by
  cases c <;> simp [Configuration.norm]

/-- the walker: a child whose only bond back to the atom it is entered from sits at index `j` of its
    bond list is handed to the follower with its `@`/`@@` mark flipped iff `j + hasH` is odd -/
theorem walker_parity (sid tid : Nat) (k : AtomKind) (pre post : List Bond) (back : Bond)
    (hb : back.tid = sid) (hpre : ∀ o ∈ pre, o.tid ≠ sid) (hpost : ∀ o ∈ post, o.tid ≠ sid) :
    (scanChild sid tid k (pre ++ back :: post) 0).1 = flipN (pre.length + (if hasH k then 1 else 0)) k := by
  have := scanChild_kind sid tid k (pre ++ back :: post) 0 pre post back rfl hb hpre hpost
  simpa using this

/-- the builder: `extend` flips the mark iff the atom has a virtual hydrogen; `root` keeps it -/
theorem builder_parity (k : AtomKind) : k.invert = if hasH k then k.flipMark else k := invert_eq k

/-- write then read: an atom entered through bond index `j` ends up with its mark flipped iff `j` is odd —
    i.e. iff moving the entry bond to the front is an odd permutation of its neighbour order; with the
    entry bond already first (`j = 0`) and for component roots the mark is kept -/
theorem roundtrip_parity (j : Nat) (k : AtomKind) :
    (flipN (j + (if hasH k then 1 else 0)) k).invert = flipN j k := walk_then_build_parity j k

theorem roundtrip_parity_even (j : Nat) (k : AtomKind) (h : j % 2 = 0) :
    (flipN (j + (if hasH k then 1 else 0)) k).invert = k := by
  rw [roundtrip_parity]; unfold flipN; simp [h]

theorem roundtrip_parity_odd (j : Nat) (k : AtomKind) (h : j % 2 = 1) :
    (flipN (j + (if hasH k then 1 else 0)) k).invert = k.flipMark := by
  rw [roundtrip_parity]; unfold flipN; simp [h]

/-- flipping is an involution, and only ever exchanges `@` and `@@` (TH1 ↔ TH2, AL1 ↔ AL2): every other
    configuration label, and every other field of the atom, is carried unchanged -/
theorem flip_involutive (k : AtomKind) : k.flipMark.flipMark = k := flipMark_flipMark k

theorem flip_only_marks (c : Configuration) :
    c.flip = c ∨ (c = .TH1 ∧ c.flip = .TH2) ∨ (c = .TH2 ∧ c.flip = .TH1) ∨ (c = .AL1 ∧ c.flip = .AL2) ∨ (c = .AL2 ∧ c.flip = .AL1) := by
  cases c <;> simp [Configuration.flip]

theorem flip_keeps_other_fields (iso : Option Number) (sym : BracketSymbol) (cfg : Option Configuration)
    (h : Option VirtualHydrogen) (q : Option Charge) (m : Option Number) :
    (AtomKind.bracket ⟨iso, sym, cfg, h, q, m⟩).flipMark = .bracket ⟨iso, sym, cfg.map Configuration.flip, h, q, m⟩ := by
  cases cfg <;> rfl

/-- directional bonds: the far end of `/` sees `\` and vice versa, both in the builder's `extend` and on
    ring closures (`reconcile` returns mutually reversed kinds), whichever way the traversal crosses them -/
theorem directional_reversed (l r a b : BondKind) (h : reconcile l r = some (a, b)) : a = b.reverse ∧ b = a.reverse := by
  cases l <;> cases r <;> simp [reconcile] at h <;> obtain ⟨rfl, rfl⟩ := h <;> exact ⟨rfl, rfl⟩

theorem reconcile_reversed_pair (k : BondKind) : reconcile k k.reverse = some (k, k.reverse) := by
  cases k <;> rfl

/-! non-vacuity: the former defect D11 (centre without hydrogen entered through bond index 1) -/
example : (flipN (1 + (if hasH (.bracket ⟨none, .element .C, some .TH1, none, none, none⟩) then 1 else 0))
    (.bracket ⟨none, .element .C, some .TH1, none, none, none⟩)).invert
    = .bracket ⟨none, .element .C, some .TH2, none, none, none⟩ := by decide

end Purr.C03
