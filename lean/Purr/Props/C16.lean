/-
  C16 — Debracketing never changes what an atom means.
-/
import Purr.Lemmas.ValenceL
namespace Purr.C16
open Purr Purr.Spec

/-- the element an atom kind denotes (`none` for the wildcard) -/
def elementOf : AtomKind → Option Element
  | .star => none
  | .aliphatic a => some a.toElement
  | .aromatic a => some a.toAliphatic.toElement
  | .bracket b => match b.symbol with
    | .star => none
    | .element e => some e
    | .aromatic a => some a.toElement

/-- hydrogens of an atom of kind `k` placed in a molecule with bond-order sum `bos` -/
def hydrogensAt (k : AtomKind) (bos : Nat) : Nat :=
  match k with
  | .star => 0
  | .aromatic _ => hSpec k.targets bos - 1
  | .aliphatic _ => hSpec k.targets bos
  | .bracket _ => hcountOf k

/-- `hydrogensAt` is what `suppressed_hydrogens` returns for any bond list with that sum -/
theorem hydrogensAt_spec (a : Atom) : a.suppressedHydrogens = hydrogensAt a.kind (orderSum a.bonds) := by
  unfold Atom.suppressedHydrogens hydrogensAt
  cases hk : a.kind with
  | star => rfl
  | aromatic x =>
    simp only [subvalence_eq, hk, hcountOf, Nat.zero_add]
    split <;> omega
  | aliphatic x => simp only [subvalence_eq, hk, hcountOf, Nat.zero_add]
  | bracket b => rfl

/-- Full statement: whenever debracketing returns (the sum with the hydrogen count fits in a byte),
    the result denotes the same element or wildcard, has the same aromatic flag and, with that
    bond-order sum, the same number of hydrogens. -/
theorem debracket_sound (k k' : AtomKind) (bos : Nat) (h : k.debracket bos = .ok k') :
    elementOf k' = elementOf k ∧ k'.isAromatic = k.isAromatic ∧ hydrogensAt k' bos = hydrogensAt k bos := by
  cases k with
  | bracket b =>
    unfold AtomKind.debracket at h
    simp only at h
    generalize hh : hcountOf (.bracket b) = hv at h
    split at h
    · cases h; exact ⟨rfl, rfl, rfl⟩
    · cases hs : b.symbol with
      | star =>
        simp only [hs] at h
        split at h
        · cases h
          refine ⟨by simp [elementOf, hs], by simp [AtomKind.isAromatic, hs], ?_⟩
          simp [hydrogensAt, *]
        · cases h; exact ⟨rfl, rfl, rfl⟩
      | aromatic a =>
        simp only [hs] at h
        split at h
        · cases h
        · cases har : Aromatic.ofBracketAromatic? a with
          | none => simp only [har] at h; cases h; exact ⟨rfl, rfl, rfl⟩
          | some ar =>
            simp only [har] at h
            cases ht : List.find? (fun t => decide (t ≥ bos)) ar.targets with
            | none => simp only [ht] at h; cases h; exact ⟨rfl, rfl, rfl⟩
            | some t =>
              simp only [ht] at h
              by_cases heq : bos + hv = t - (if hv = 0 then 0 else 1)
              · rw [if_pos heq] at h
                cases h
                refine ⟨?_, ?_, ?_⟩
                · simp only [elementOf, hs]
                  cases a <;> simp [Aromatic.ofBracketAromatic?] at har <;> subst har <;> rfl
                · simp [AtomKind.isAromatic, hs]
                · simp only [hydrogensAt, hh, hSpec, AtomKind.targets]
                  have ht' : List.find? (fun t => decide (bos ≤ t)) ar.targets = some t := by
                    simpa [ge_iff_le] using ht
                  rw [ht']
                  have hge := List.find?_some ht
                  simp at hge
                  split at heq <;> simp_all <;> omega
              · rw [if_neg heq] at h; cases h; exact ⟨rfl, rfl, rfl⟩
      | element e =>
        simp only [hs] at h
        split at h
        · cases h
        · cases hal : Aliphatic.ofElement? e with
          | none => simp only [hal] at h; cases h; exact ⟨rfl, rfl, rfl⟩
          | some al =>
            simp only [hal] at h
            cases ht : List.find? (fun t => decide (t ≥ bos)) al.targets with
            | none => simp only [ht] at h; cases h; exact ⟨rfl, rfl, rfl⟩
            | some t =>
              simp only [ht] at h
              split at h
              · rename_i heq
                cases h
                refine ⟨?_, ?_, ?_⟩
                · simp only [elementOf, hs]
                  cases al <;> cases e <;> simp [Aliphatic.ofElement?] at hal <;> rfl
                · simp [AtomKind.isAromatic, hs]
                · simp only [hydrogensAt, hh, hSpec, AtomKind.targets]
                  have ht' : List.find? (fun t => decide (bos ≤ t)) al.targets = some t := by
                    simpa [ge_iff_le] using ht
                  rw [ht']
                  simp; omega
              · cases h; exact ⟨rfl, rfl, rfl⟩
  | star => cases h; exact ⟨rfl, rfl, rfl⟩
  | aliphatic a => cases h; exact ⟨rfl, rfl, rfl⟩
  | aromatic a => cases h; exact ⟨rfl, rfl, rfl⟩

/-- the same in terms of the hydrogen-count query on any bond list with that sum -/
theorem debracket_same_hydrogens (k k' : AtomKind) (bs : List Bond) (h : k.debracket (orderSum bs) = .ok k') :
    (Atom.mk k' bs).suppressedHydrogens = (Atom.mk k bs).suppressedHydrogens := by
  rw [hydrogensAt_spec, hydrogensAt_spec]
  exact (debracket_sound k k' _ h).2.2

/-- atoms that carry an isotope, configuration, charge or map number are returned unchanged -/
theorem debracket_unchanged_fields (b : Bracket) (bos : Nat)
    (h : b.isotope.isSome ∨ b.configuration.isSome ∨ b.charge.isSome ∨ b.map.isSome) :
    (AtomKind.bracket b).debracket bos = .ok (.bracket b) := by
  unfold AtomKind.debracket
  rcases h with h | h | h | h <;> simp [h]

/-- atoms that are already unbracketed are returned unchanged -/
theorem debracket_unchanged_unbracketed (k : AtomKind) (bos : Nat) (h : ∀ b, k ≠ .bracket b) :
    k.debracket bos = .ok k := by
  cases k with
  | bracket b => exact absurd rfl (h b)
  | _ => rfl

/-- the only failure is the byte overflow the property's quantifier excludes -/
theorem debracket_total (k : AtomKind) (bos : Nat) (hfit : bos + hcountOf k ≤ 255) :
    ∃ k', k.debracket bos = .ok k' := by
  cases k with
  | bracket b =>
    unfold AtomKind.debracket
    simp only
    have hn : ¬ (bos + hcountOf (.bracket b) > 255) := by omega
    simp only [hn, if_false]
    repeat' split
    all_goals exact ⟨_, rfl⟩
  | _ => exact ⟨_, rfl⟩

/-! non-vacuity: debracketing does happen, and the former defect D14 stays out -/
example : (AtomKind.bracket ⟨none, .element .C, none, some ⟨4, by decide⟩, none, none⟩).debracket 0
    = .ok (.aliphatic .C) := by decide
example : (AtomKind.bracket ⟨none, .element .N, none, some ⟨4, by decide⟩, none, none⟩).debracket 1
    = .ok (.bracket ⟨none, .element .N, none, some ⟨4, by decide⟩, none, none⟩) := by decide
example : (AtomKind.bracket ⟨none, .aromatic .C, none, some ⟨1, by decide⟩, none, none⟩).debracket 2
    = .ok (.aromatic .C) := by decide
/-- pyrrole nitrogen keeps its brackets: `n` with two ring bonds would have no hydrogen -/
example : (AtomKind.bracket ⟨none, .aromatic .N, none, some ⟨1, by decide⟩, none, none⟩).debracket 2
    = .ok (.bracket ⟨none, .aromatic .N, none, some ⟨1, by decide⟩, none, none⟩) := by decide

end Purr.C16
