/-
  C01 — Round trip preserves the molecule's constitution.

  Stages 1, 2 and 3 of the staging in DESIGN.md 4.1.

  Stage 3, `roundtrip`: for EVERY well-formed adjacency list — rings included, any size, any atom numbering,
  any per-atom bond order, any number of components, all atom kinds, all eight bond kinds — on which the
  traversal succeeds (it fails only by running out of ring numbers: known finding D17) the complete round
  trip walk → write → read → build yields a graph isomorphic to the original along the visit order
  (`Spec.Iso`).  The proof (Purr/Lemmas/RtcRing.lean) is a simulation between the recursive traversal
  `walkRec` and the graph builder with a purely state-based invariant: the builder's node for an atom lists
  the half-bonds it has processed, resolved unless the ring-number pool holds the pair open; the pool holds
  a pair open iff exactly one of its two half-bonds has been processed; the builder's table of open ring
  numbers agrees with the pool.  `walkRec` is compared with the real `walk` on every run (field EVR).

  Stage 2, `roundtrip_forest` (kept; subsumed by stage 3): for EVERY well-formed adjacency list on which the traversal meets no ring
  closure (every forest: any size, any atom numbering, any per-atom bond order, any number of components,
  all atom kinds, all eight bond kinds) the complete round trip walk → write → read → build yields a graph
  isomorphic to the original along the visit order (`Spec.Iso`).  The traversal is the recursive
  formulation `walkRec`, compared with the real `walk` on every run (field EVR); the proof is a simulation
  between that traversal and the graph builder (`kids_sim`, `comps_sim`, `rtc_forest`), T-wr for the text
  leg and the builder's commutation with the C07 shorthands.

  Stage 1, proved for EVERY adjacency list (no well-formedness needed) and every accepted string:
    * the traversal's events are spelled by the writer without a panic, the reader accepts that text, and
      reads back exactly the traversal's events (up to the C07 shorthands) — no atom, bond, charge or ring
      closure is lost, duplicated, retargeted or relabelled between the traversal's event stream and the
      re-read event stream (`written_text_accepted`, via T-wr);
    * hence building from the text equals building from the traversal's events directly
      (`roundtrip_text_elimination`): text is eliminated from the round trip;
    * a graph built from a conformant history is well-formed, so the traversal accepts it (C10, C11).
  `roundtrip_walk` states the same about `walk` itself — the explicit-stack loop that mirrors
  src/walk/walk.rs: Purr/Lemmas/LoopRecL.lean proves that on a well-formed graph the loop ends with `ok` iff
  the recursive traversal succeeds, with the same events (`walk_eq_walkRec`, `walkRec_of_walk_ok`), and
  Purr/Lemmas/WalkPanicL.lean that the loop terminates and reaches no internal panic site.  The only case
  left out is D17 (the pool exhausted; `walk_ok_or_pool_exhausted`).  The
  isomorphism is additionally checked on every run by the oracle (walk → write → read → build on the real
  code, then an isomorphism test along the traversal order).  Known finding D17 (more than 99
  simultaneously open ring closures panic) and D19 (the empty adjacency list is written as the empty string,
  which the reader refuses) are listed in known_findings.json.
-/
import Purr.Props.C09
import Purr.Props.C10
import Purr.Props.C11
import Purr.Lemmas.RtcCor
import Purr.Lemmas.RtcRing
import Purr.Lemmas.NormL
import Purr.Lemmas.LoopRecL
import Purr.Props.C02
namespace Purr.C01
open Purr Purr.Spec

theorem conformantNE_of_nonempty {es : List Event} (h : Conformant es) (hne : es ≠ []) : ConformantNE es := by
  unfold Conformant at h
  cases hp : protoRun none es with
  | none => rw [hp] at h; cases h
  | some ps =>
    cases ps with
    | some n => exact ⟨n, hp⟩
    | none => exact absurd (C09.protoRun_some_none hp).1 hne

/-- writing any adjacency list that has at least one atom (and passes validation) produces a string that
    the reader accepts, and the reader replays exactly the traversal's events -/
theorem written_text_accepted (g : Graph) (hne : (walk g).1 ≠ []) :
    ∃ t, write? (walk g).1 = some t ∧ read t = ((walk g).1.map Event.norm, .ok) :=
  C09.read_write _ (conformantNE_of_nonempty (C08.walker_conformant g) hne)

/-- text is eliminated from the round trip: the graph built from the written text is the graph built from
    the traversal's own (normalised) events -/
theorem roundtrip_text_elimination (g : Graph) (hne : (walk g).1 ≠ []) :
    ∃ t, write? (walk g).1 = some t ∧ build? (read t).1 = build? ((walk g).1.map Event.norm) := by
  obtain ⟨t, hw, hr⟩ := written_text_accepted g hne
  exact ⟨t, hw, by rw [hr]⟩

/-- the same for strings: re-reading the rewritten text of an accepted string replays its events -/
theorem string_rewrite_same_events (s : Str) (es : List Event) (h : read s = (es, .ok)) :
    ∃ t, write? es = some t ∧ build? (read t).1 = build? (es.map Event.norm) := by
  obtain ⟨t, hw, hr⟩ := C09.read_write_read s es h
  exact ⟨t, hw, by rw [hr]⟩

/-- whatever the round trip builds is a well-formed simple graph -/
theorem roundtrip_result_wellformed (g : Graph) (g' : Graph) (t : Str)
    (hr : build? (read t).1 = some (.ok g')) : WellFormed g' :=
  C10.build_ok_wellformed _ (C08.reader_conformant t) g' hr

/-- kinds are compared up to configuration and the H0 shorthand: normalising changes nothing of that -/
theorem constitution_norm (k : AtomKind) : constitution k.norm = constitution k := by
  cases k with
  | bracket b =>
    obtain ⟨iso, sym, cfg, h, q, m⟩ := b
    simp only [AtomKind.norm, Bracket.norm, constitution]
    cases h with
    | none => rfl
    | some hh => by_cases h0 : hh.val = 0 <;> simp [hnorm, h0]
  | _ => rfl

theorem iso_normAtoms {g g' : Graph} {π : Nat → Nat} (h : Iso g g' π) : Iso g (g'.map normAtom) π := by
  obtain ⟨h1, h2, h3, h4⟩ := h
  refine ⟨by simp [h1], h2, h3, ?_⟩
  intro a atom ha
  obtain ⟨atom', ha', hk, hb⟩ := h4 a atom ha
  refine ⟨normAtom atom', by rw [List.getElem?_map, ha']; rfl, ?_, hb⟩
  simp only [normAtom]; rw [constitution_norm]; exact hk

/-- STAGE 2, detailed form (used by C03 and C12): the graph read back from the written text is the
    traversal-order relabelling `g1` of the original (each arrival bond first, `@`/`@@` marks adjusted),
    with the C07 shorthands applied to the atom kinds. -/
theorem roundtrip_forest_relabelled (g : Graph) (hw : WellFormed g) (es : List (Event × Nat)) (ord : List Nat)
    (h : walkRecL g = some (es, ord)) (hj : ∀ e ∈ es, isJoin e = false) (hne : es ≠ []) :
    ∃ t g1, write? (es.map (·.1)) = some t ∧ (read t).2 = .ok ∧ build? (read t).1 = some (.ok (g1.map normAtom)) ∧
      Relabelled g ord g1 ∧ ord.Nodup ∧ (∀ x, x < g.length ↔ x ∈ ord) := by
  obtain ⟨g1, hb, hrel, hnd, hcov⟩ := rtc_forest g hw es ord h hj
  have hconf : Conformant (es.map (·.1)) := conformant_of_walkRec g es ord h
  have hne' : es.map (·.1) ≠ [] := by simpa using hne
  obtain ⟨t, hw', hr⟩ := C09.read_write _ (conformantNE_of_nonempty hconf hne')
  refine ⟨t, g1, hw', by rw [hr], ?_, hrel, hnd, hcov⟩
  rw [hr]
  simp only
  rw [build_norm, hb]
  rfl

/-- STAGE 2.  The complete round trip of a forest: the written text is accepted by the reader and builds a
    graph isomorphic to the original, atom `x` going to its position in the visit order. -/
theorem roundtrip_forest (g : Graph) (hw : WellFormed g) (es : List (Event × Nat)) (ord : List Nat)
    (h : walkRecL g = some (es, ord)) (hj : ∀ e ∈ es, isJoin e = false) (hne : es ≠ []) :
    ∃ t g', write? (es.map (·.1)) = some t ∧ (read t).2 = .ok ∧ build? (read t).1 = some (.ok g') ∧
      Iso g g' (pos ord) := by
  obtain ⟨t, g1, hw', hok, hb, hrel, hnd, hcov⟩ := roundtrip_forest_relabelled g hw es ord h hj hne
  exact ⟨t, g1.map normAtom, hw', hok, hb, iso_normAtoms (hrel.iso hnd hcov)⟩

/-- STAGE 3, detailed form: the same for EVERY well-formed adjacency list, rings included (the traversal
    must succeed, i.e. never need a hundredth simultaneously open ring number — known finding D17). -/
theorem roundtrip_relabelled (g : Graph) (hw : WellFormed g) (es : List (Event × Nat)) (ord : List Nat)
    (h : walkRecL g = some (es, ord)) (hne : es ≠ []) :
    ∃ t g1, write? (es.map (·.1)) = some t ∧ (read t).2 = .ok ∧ build? (read t).1 = some (.ok (g1.map normAtom)) ∧
      Relabelled g ord g1 ∧ ord.Nodup ∧ (∀ x, x < g.length ↔ x ∈ ord) := by
  obtain ⟨g1, hb, hrel, hnd, hcov⟩ := rtc g hw es ord h
  have hconf : Conformant (es.map (·.1)) := conformant_of_walkRec g es ord h
  have hne' : es.map (·.1) ≠ [] := by simpa using hne
  obtain ⟨t, hw', hr⟩ := C09.read_write _ (conformantNE_of_nonempty hconf hne')
  refine ⟨t, g1, hw', by rw [hr], ?_, hrel, hnd, hcov⟩
  rw [hr]
  simp only
  rw [build_norm, hb]
  rfl

/-- STAGE 3.  THE ROUND TRIP PRESERVES THE CONSTITUTION: for every well-formed adjacency list (any rings,
    any numbering, any bond order, any number of components) the written text is accepted by the reader and
    builds a graph isomorphic to the original, atom `x` going to its position in the visit order. -/
theorem roundtrip (g : Graph) (hw : WellFormed g) (es : List (Event × Nat)) (ord : List Nat)
    (h : walkRecL g = some (es, ord)) (hne : es ≠ []) :
    ∃ t g', write? (es.map (·.1)) = some t ∧ (read t).2 = .ok ∧ build? (read t).1 = some (.ok g') ∧
      Iso g g' (pos ord) := by
  obtain ⟨t, g1, hw', hok, hb, hrel, hnd, hcov⟩ := roundtrip_relabelled g hw es ord h hne
  exact ⟨t, g1.map normAtom, hw', hok, hb, iso_normAtoms (hrel.iso hnd hcov)⟩

/-- the traversal of a well-formed graph with at least one atom emits at least the root event -/
theorem walkRecL_nonempty (g : Graph) (a : Atom) (rest : Graph) (hg : g = a :: rest) (es : List (Event × Nat)) (ord : List Nat)
    (h : walkRecL g = some (es, ord)) : es ≠ [] := by
  subst hg
  unfold walkRecL at h
  split at h
  · cases h
  · simp only [Option.map_eq_some_iff] at h
    obtain ⟨⟨es0, ord0, pool0⟩, hc, heq⟩ := h
    simp only [Prod.mk.injEq] at heq
    obtain ⟨rfl, rfl⟩ := heq
    simp only [List.length_cons, List.range_succ_eq_map, comps, List.contains_nil, Bool.false_eq_true, if_false,
      List.getElem?_cons_zero] at hc
    split at hc
    · cases hc
    · split at hc
      · cases hc
      · simp only [Option.some.injEq, Prod.mk.injEq] at hc
        obtain ⟨rfl, _⟩ := hc
        simp

/-- THE ROUND TRIP PRESERVES THE CONSTITUTION, stated about `walk` itself (the loop that mirrors
    src/walk/walk.rs): for every well-formed adjacency list with at least one atom on which the traversal
    ends with `ok` — by C11/C06 the only alternative is the exhausted ring-number pool, known finding D17 —
    the text written from the traversal's events is accepted by the reader and builds a graph isomorphic to
    the original. -/
theorem roundtrip_walk (g : Graph) (hw : WellFormed g) (hok : (walk g).2 = .ok) (hne : (walk g).1 ≠ []) :
    ∃ t g' π, write? (walk g).1 = some t ∧ (read t).2 = .ok ∧ build? (read t).1 = some (.ok g') ∧ Iso g g' π := by
  obtain ⟨es, ord, hr, hev⟩ := walkRec_of_walk_ok g hw hok
  have hne' : es ≠ [] := by intro e; subst e; simp at hev; exact hne hev
  obtain ⟨t, g', h1, h2, h3, h4⟩ := roundtrip g hw es ord hr hne'
  exact ⟨t, g', pos ord, by rw [← hev]; exact h1, h2, h3, h4⟩

/-- every well-formed adjacency list: the traversal ends with `ok` or with the one panic of D17 -/
theorem walk_ok_or_pool_exhausted (g : Graph) (hw : WellFormed g) :
    (walk g).2 = .ok ∨ (walk g).2 = .panic "join_pool.rs:rnum" := by
  cases hv : (walk g).2 with
  | ok => exact Or.inl rfl
  | err e => exact absurd hv (C11.wellformed_not_rejected g hw e)
  | panic p => rw [walk_panic_only_rnum g p hv]; exact Or.inr rfl

/-! non-vacuity of stage 3: a fused bicyclic graph with a stereocentre, numbered out of traversal order -/
def exampleRings : Graph :=
  [⟨.star, [⟨.elided, 2⟩, ⟨.up, 3⟩]⟩, ⟨.star, [⟨.double, 2⟩, ⟨.elided, 3⟩]⟩,
   ⟨.bracket ⟨none, .element .C, some .TH1, none, none, none⟩, [⟨.double, 1⟩, ⟨.elided, 0⟩, ⟨.single, 3⟩]⟩,
   ⟨.star, [⟨.single, 2⟩, ⟨.elided, 1⟩, ⟨.down, 0⟩]⟩]

example : WellFormed exampleRings ∧ ∃ es ord, walkRecL exampleRings = some (es, ord) ∧
    (∃ e ∈ es, isJoin e = true) ∧ es ≠ [] := by
  refine ⟨(validate_none_iff _).mp (by decide), (walkRecL exampleRings).get!.1, (walkRecL exampleRings).get!.2,
    by decide, by decide, by decide⟩

/-! non-vacuity of stage 2: a two-component forest with a stereocentre entered through bond index 1,
    numbered out of traversal order, meets every hypothesis of `roundtrip_forest` -/
def exampleForest : Graph :=
  [⟨.star, [⟨.elided, 2⟩]⟩, ⟨.star, [⟨.double, 2⟩]⟩,
   ⟨.bracket ⟨none, .element .C, some .TH1, none, none, none⟩, [⟨.double, 1⟩, ⟨.elided, 0⟩, ⟨.single, 3⟩]⟩,
   ⟨.star, [⟨.single, 2⟩]⟩, ⟨.star, []⟩]

example : WellFormed exampleForest ∧ ∃ es ord, walkRecL exampleForest = some (es, ord) ∧
    (∀ e ∈ es, isJoin e = false) ∧ es ≠ [] := by
  refine ⟨(validate_none_iff _).mp (by decide), (walkRecL exampleForest).get!.1, (walkRecL exampleForest).get!.2,
    by decide, by decide, by decide⟩

/-- a well-formed adjacency list with an atom yields at least the root event, so the theorems above apply -/
theorem wellformed_nonempty_events (g : Graph) (a : Atom) (rest : Graph) (hg : g = a :: rest) (hw : WellFormed g) :
    (walk g).1 ≠ [] := by
  subst hg
  unfold walk
  rw [(validate_none_iff _).mpr hw]
  simp only [List.length_cons, List.range_succ_eq_map, compLoop]
  simp only [List.contains_nil, Bool.false_eq_true, if_false, List.getElem?_cons_zero]
  split <;> simp

/-- an accepted string has at least one atom, so its graph is not empty -/
theorem accepted_graph_nonempty (s : Str) (g : Graph) (hr : (read s).2 = .ok)
    (hb : build? (read s).1 = some (.ok g)) : ∃ a rest, g = a :: rest := by
  have hc : ConformantNE (read s).1 := C09.accepted_conformantNE (s := s) (es := (read s).1) (by rw [← hr])
  have hk := C02.atoms_in_order _ g hb
  obtain ⟨n, hn⟩ := hc
  cases hes : (read s).1 with
  | nil => rw [hes] at hn; simp [protoRun] at hn
  | cons e es =>
    rw [hes] at hn hk
    cases e with
    | root k =>
      simp only [atomKinds] at hk
      cases g with
      | nil => simp at hk
      | cons a rest => exact ⟨a, rest, rfl⟩
    | extend b k => simp [protoRun, stepProto] at hn
    | join b r => simp [protoRun, stepProto] at hn
    | pop d => simp [protoRun, stepProto] at hn

/-- THE ROUND TRIP OF A STRING (the first quantifier of the property): for every string the reader accepts whose
    graph builds, if the traversal of that graph ends with `ok` (the only alternative is D17, by
    `walk_ok_or_pool_exhausted`), the text written from it is accepted again and builds a graph isomorphic to the
    first one. -/
theorem roundtrip_string (s : Str) (g : Graph) (hr : (read s).2 = .ok) (hb : build? (read s).1 = some (.ok g))
    (hok : (walk g).2 = .ok) :
    ∃ t g' π, write? (walk g).1 = some t ∧ (read t).2 = .ok ∧ build? (read t).1 = some (.ok g') ∧ Iso g g' π := by
  have hw := C10.read_build_wellformed s g hr hb
  obtain ⟨a, rest, hg⟩ := accepted_graph_nonempty s g hr hb
  exact roundtrip_walk g hw hok (wellformed_nonempty_events g a rest hg hw)

/-- … and that graph is itself either written or stopped by D17 only: reading never produces a graph the
    traversal refuses -/
theorem string_graph_walk_verdict (s : Str) (g : Graph) (hr : (read s).2 = .ok) (hb : build? (read s).1 = some (.ok g)) :
    (walk g).2 = .ok ∨ (walk g).2 = .panic "join_pool.rs:rnum" :=
  walk_ok_or_pool_exhausted g (C10.read_build_wellformed s g hr hb)

end Purr.C01
