/-
  C01 — Round trip preserves the molecule's constitution.

  PARTIAL (stage 1 of the staging in DESIGN.md 4.1).  Proved here, for EVERY adjacency list (no
  well-formedness needed) and every accepted string:
    * the traversal's events are spelled by the writer without a panic, the reader accepts that text, and
      reads back exactly the traversal's events (up to the C07 shorthands) — no atom, bond, charge or ring
      closure is lost, duplicated, retargeted or relabelled between the traversal's event stream and the
      re-read event stream (`written_text_accepted`, via T-wr);
    * hence building from the text equals building from the traversal's events directly
      (`roundtrip_text_elimination`): text is eliminated from the round trip;
    * a graph built from a conformant history is well-formed, so the traversal accepts it (C10, C11).
  What remains is the round-trip core RTC: `build (walk g)` is `g` renumbered in traversal order with each
  atom's arrival bond first.  It is in progress; until it is closed the isomorphism itself is checked on
  every run by the oracle (walk → write → read → build on the real code, then an isomorphism test along the
  traversal order) and by the S-graph / S-read correspondence.  Known finding D17 (more than 99
  simultaneously open ring closures panic) and D19 (the empty adjacency list is written as the empty string,
  which the reader refuses) are listed in known_findings.json.
-/
import Purr.Props.C09
import Purr.Props.C10
namespace Purr.C01
open Purr Purr.Spec

theorem conformantNE_of_nonempty {es : List Event} (h : Conformant es) (hne : es ≠ []) : ConformantNE es := by
  unfold Conformant at h
  cases hp : protoRun none es with
  | none => rw [hp] at h; cases h
  | some ps =>
    cases ps with
    | some n => exact ⟨n, hp⟩
    | none => exact absurd (C09.protoRun_some_none hp).1 hne

/-- writing any adjacency list that has at least one atom (and passes validation) produces a string that
    the reader accepts, and the reader replays exactly the traversal's events -/
theorem written_text_accepted (g : Graph) (hne : (walk g).1 ≠ []) :
    ∃ t, write? (walk g).1 = some t ∧ read t = ((walk g).1.map Event.norm, .ok) :=
  C09.read_write _ (conformantNE_of_nonempty (C08.walker_conformant g) hne)

/-- text is eliminated from the round trip: the graph built from the written text is the graph built from
    the traversal's own (normalised) events -/
theorem roundtrip_text_elimination (g : Graph) (hne : (walk g).1 ≠ []) :
    ∃ t, write? (walk g).1 = some t ∧ build? (read t).1 = build? ((walk g).1.map Event.norm) := by
  obtain ⟨t, hw, hr⟩ := written_text_accepted g hne
  exact ⟨t, hw, by rw [hr]⟩

/-- the same for strings: re-reading the rewritten text of an accepted string replays its events -/
theorem string_rewrite_same_events (s : Str) (es : List Event) (h : read s = (es, .ok)) :
    ∃ t, write? es = some t ∧ build? (read t).1 = build? (es.map Event.norm) := by
  obtain ⟨t, hw, hr⟩ := C09.read_write_read s es h
  exact ⟨t, hw, by rw [hr]⟩

/-- whatever the round trip builds is a well-formed simple graph -/
theorem roundtrip_result_wellformed (g : Graph) (g' : Graph) (t : Str)
    (hr : build? (read t).1 = some (.ok g')) : WellFormed g' :=
  C10.build_ok_wellformed _ (C08.reader_conformant t) g' hr

/-- a well-formed adjacency list with an atom yields at least the root event, so the theorems above apply -/
theorem wellformed_nonempty_events (g : Graph) (a : Atom) (rest : Graph) (hg : g = a :: rest) (hw : WellFormed g) :
    (walk g).1 ≠ [] := by
  subst hg
  unfold walk
  rw [(validate_none_iff _).mpr hw]
  simp only [List.length_cons, List.range_succ_eq_map, compLoop]
  simp only [List.contains_nil, Bool.false_eq_true, if_false, List.getElem?_cons_zero]
  split <;> simp

end Purr.C01
