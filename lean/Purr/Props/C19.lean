/-
  C19 — Stack use is bounded by branch nesting, not by molecule size.

  What a theorem can say: the number of simultaneously live `read_smiles` activations — on the repaired
  tree (fix D16) exactly the length of the reader transducer's stack, `runDepth`, compared on every
  generated string with the counter the `purr_verif` hook maintains in the real code.  What it cannot
  say: bytes per frame and the size of the thread's stack (measured, see DESIGN.md 4.19).
-/
import Purr.Lemmas.ShapeL
namespace Purr.C19
open Purr

/-- maximum number of live `read_smiles` activations while reading `s` -/
def maxDepth (s : Str) : Nat := runDepth .needRoot [0] s

/-- parenthesis nesting of the raw string: the largest excess of `(` over `)` in any prefix
    (a `)` at level 0 is ignored) -/
def nesting (s : Str) : Nat := nestFrom 0 s

theorem nestFrom_succ_le : ∀ (s : Str) (k : Nat), nestFrom (k + 1) s ≤ nestFrom k s + 1
  | [], k => by simp [nestFrom]
  | c :: r, k => by
    by_cases h1 : c = '('
    · subst h1
      simp only [nestFrom]
      have := nestFrom_succ_le r (k + 1)
      omega
    · by_cases h2 : c = ')'
      · subst h2
        simp only [nestFrom, Nat.add_sub_cancel]
        cases k with
        | zero =>
          have := nestFrom_succ_le r 0
          simp only [Nat.zero_sub]
          have h0 := le_nestFrom r 0
          omega
        | succ k =>
          have := nestFrom_succ_le r k
          simp only [Nat.add_sub_cancel]
          omega
      · rw [nestFrom_noParen ⟨h1, h2⟩, nestFrom_noParen ⟨h1, h2⟩]
        exact nestFrom_succ_le r k

/-- the recursion depth of the reader is at most one more than the parenthesis nesting of its input,
    whatever the length of the input -/
theorem depth_le_nesting (s : Str) : maxDepth s ≤ nesting s + 1 := by
  have := runDepth_le_nest .needRoot [0] s (by simp)
  exact Nat.le_trans this (nestFrom_succ_le s 0)

theorem nestFrom_no_parens : ∀ (s : Str) (k : Nat), (∀ c ∈ s, NoParen c) → nestFrom k s = k
  | [], _, _ => rfl
  | c :: r, k, h => by
    rw [nestFrom_noParen (h c (by simp))]
    exact nestFrom_no_parens r k (fun x hx => h x (List.mem_cons_of_mem _ hx))

/-- inputs without parentheses — unbranched chains, dot-separated lists of molecules with or without
    rings, lists of ring closures — are read at depth one, whatever their size -/
theorem depth_flat (s : Str) (h : ∀ c ∈ s, NoParen c) : maxDepth s ≤ 1 := by
  have := runDepth_le_nest .needRoot [0] s (by simp)
  simp only [List.length_cons, List.length_nil, Nat.zero_add, nestFrom_no_parens s 1 h] at this
  exact this

/-- an atom with any number of unnested branches is read at depth two -/
theorem depth_one_level (s : Str) (h : nesting s ≤ 1) : maxDepth s ≤ 2 := by
  have := depth_le_nesting s; omega

/-! non-vacuity: the size families of the S-depth suite have constant nesting -/
theorem chain_flat (n : Nat) : ∀ c ∈ List.replicate n 'C', NoParen c := by
  intro c hc; rw [List.eq_of_mem_replicate hc]; unfold NoParen; decide

example (n : Nat) : maxDepth (List.replicate n 'C') ≤ 1 := depth_flat _ (chain_flat n)

theorem branches_nesting : ∀ (n k : Nat), nestFrom k ((List.replicate n ['(', 'C', ')']).flatten) ≤ k + 1
  | 0, k => by simp [nestFrom]
  | n + 1, k => by
    simp only [List.replicate_succ, List.flatten_cons, List.cons_append, List.nil_append]
    simp only [nestFrom]
    rw [nestFrom_noParen (by unfold NoParen; decide)]
    simp only [nestFrom, Nat.add_sub_cancel]
    have := branches_nesting n k
    omega

example (n : Nat) : maxDepth ('C' :: (List.replicate n ['(', 'C', ')']).flatten) ≤ 2 := by
  apply depth_one_level
  unfold nesting
  rw [nestFrom_noParen (by unfold NoParen; decide)]
  exact branches_nesting n 0

end Purr.C19
