/-
  C17 — Hydrogen counts and subvalence follow the valence model at any degree.
  Bond-order sums are unbounded naturals: the statements hold for atoms with any number of bonds.
-/
import Purr.Lemmas.ValenceL
namespace Purr.C17
open Purr Purr.Spec

/-- an unbracketed aliphatic atom: distance from the bond-order sum to the smallest standard
    valence of its element that is not below the sum, zero when there is none -/
theorem aliphatic_h (x : Aliphatic) (bs : List Bond) :
    (Atom.mk (.aliphatic x) bs).suppressedHydrogens = hSpec (stdValences x.toElement) (orderSum bs) := by
  have h : (AtomKind.aliphatic x).targets = stdValences x.toElement := by cases x <;> rfl
  simp only [Atom.suppressedHydrogens, subvalence_eq, h, hcountOf, Nat.zero_add]

/-- an aromatic symbol: one less, not below zero -/
theorem aromatic_h (x : Aromatic) (bs : List Bond) :
    (Atom.mk (.aromatic x) bs).suppressedHydrogens = hSpec (stdValences x.toAliphatic.toElement) (orderSum bs) - 1 := by
  have h : (AtomKind.aromatic x).targets = stdValences x.toAliphatic.toElement := by cases x <;> rfl
  simp only [Atom.suppressedHydrogens, subvalence_eq, h, hcountOf, Nat.zero_add]
  split <;> omega

/-- a bracket atom: exactly its written hydrogen count -/
theorem bracket_h (b : Bracket) (bs : List Bond) :
    (Atom.mk (.bracket b) bs).suppressedHydrogens = (match b.hcount with | some h => h.val | none => 0) := by
  simp only [Atom.suppressedHydrogens, hcountOf]
  cases b.hcount <;> rfl

/-- a wildcard has none -/
theorem star_h (bs : List Bond) : (Atom.mk .star bs).suppressedHydrogens = 0 := rfl

/-- subvalence is the same distance, computed from the kind's own published targets -/
theorem subvalence_spec (a : Atom) :
    a.subvalence = hSpec a.kind.targets (hcountOf a.kind + orderSum a.bonds) := subvalence_eq a

/-- organic-subset symbols publish the standard valences of their element -/
theorem aliphatic_targets (x : Aliphatic) : (AtomKind.aliphatic x).targets = stdValences x.toElement := by
  cases x <;> rfl
theorem aromatic_targets (x : Aromatic) : (AtomKind.aromatic x).targets = stdValences x.toAliphatic.toElement := by
  cases x <;> rfl

/-- a neutral bracket atom of an organic-subset element that has targets publishes the standard ones
    (halogens in brackets publish none) -/
theorem neutral_bracket_targets (x : Aliphatic) :
    elementalTargets x.toElement none = stdValences x.toElement ∨ elementalTargets x.toElement none = [] := by
  cases x <;> simp [elementalTargets, Aliphatic.toElement, stdValences]

/-- charged bracket atoms that have valence targets use those of their isoelectronic neutral element -/
theorem charged_targets (e : Element) (q : Charge) (h : elementalTargets e (some q) ≠ []) :
    ∃ e', (atomicNumber e' : Int) = atomicNumber e - q.val ∧ elementalTargets e (some q) = elementalTargets e' none := by
  have hq := q.ok
  cases e <;> simp only [elementalTargets, ne_eq, not_true_eq_false] at h
  case B =>
    by_cases h3 : q.val = -3
    · exact ⟨.O, by rw [an_O, an_B, h3]; rfl, by simp [elementalTargets, h3]⟩
    by_cases h2 : q.val = -2
    · exact ⟨.N, by rw [an_N, an_B, h2]; rfl, by simp [elementalTargets, h2]⟩
    by_cases h1 : q.val = -1
    · exact ⟨.C, by rw [an_C, an_B, h1]; rfl, by simp [elementalTargets, h1]⟩
    · simp [h3, h2, h1, hq.1] at h
  case C =>
    by_cases h2 : q.val = -2
    · exact ⟨.O, by rw [an_O, an_C, h2]; rfl, by simp [elementalTargets, h2]⟩
    by_cases h1 : q.val = -1
    · exact ⟨.N, by rw [an_N, an_C, h1]; rfl, by simp [elementalTargets, h1]⟩
    by_cases h0 : q.val = 1
    · exact ⟨.B, by rw [an_B, an_C, h0]; rfl, by simp [elementalTargets, h0]⟩
    · simp [h2, h1, h0, hq.1] at h
  case N =>
    by_cases h0 : q.val = 1
    · exact ⟨.C, by rw [an_C, an_N, h0]; rfl, by simp [elementalTargets, h0]⟩
    · simp [h0, hq.1] at h
  case O =>
    by_cases h0 : q.val = 1
    · exact ⟨.N, by rw [an_N, an_O, h0]; rfl, by simp [elementalTargets, h0]⟩
    · simp [h0, hq.1] at h
  case P =>
    by_cases h0 : q.val = -1
    · exact ⟨.S, by rw [an_S, an_P, h0]; rfl, by simp [elementalTargets, h0]⟩
    · simp [h0, hq.1] at h
  case As =>
    by_cases h0 : q.val = -1
    · exact ⟨.Se, by rw [an_Se, an_As, h0]; rfl, by simp [elementalTargets, h0]⟩
    · simp [h0, hq.1] at h
  case S =>
    by_cases h0 : q.val = 1
    · exact ⟨.P, by rw [an_P, an_S, h0]; rfl, by simp [elementalTargets, h0]⟩
    · simp [h0, hq.1] at h
  case Se =>
    by_cases h0 : q.val = 1
    · exact ⟨.As, by rw [an_As, an_Se, h0]; rfl, by simp [elementalTargets, h0]⟩
    · simp [h0, hq.1] at h


/-- no wrap-around: whatever the degree and the bond-order sum, subvalence is at most 6 and is 0
    once the sum exceeds every target -/
theorem no_wraparound (a : Atom) :
    a.subvalence ≤ 6 ∧ (7 ≤ hcountOf a.kind + orderSum a.bonds → a.subvalence = 0) := by
  rw [subvalence_eq]
  exact ⟨hSpec_le _ _ (targets_le_six a.kind), hSpec_zero_of_large _ _ (targets_le_six a.kind)⟩

theorem hydrogens_le (a : Atom) : a.suppressedHydrogens ≤ 9 := by
  have h := (no_wraparound a).1
  unfold Atom.suppressedHydrogens
  split
  · omega
  · split <;> omega
  · omega
  · rename_i b hk
    simp only [hcountOf, hk]
    cases hb : b.hcount with
    | none => simp
    | some hh => have := hh.lt; simp; omega

/-- the bond-order sum only depends on the multiset of bond kinds (any order of the bond list) -/
theorem orderSum_perm {bs bs' : List Bond} (h : bs.Perm bs') : orderSum bs = orderSum bs' := by
  unfold orderSum
  exact (h.map _).sum_nat

/-! non-vacuity: a carbon with 300 single bonds, a sulfur with sums 1, 3, 5, 7 -/
example : (Atom.mk (.aliphatic .C) (List.replicate 300 ⟨.single, 0⟩)).subvalence = 0 := by
  have : ∀ n, orderSum (List.replicate n (⟨.single, 0⟩ : Bond)) = n := by
    intro n; induction n with
    | zero => rfl
    | succ n ih => simp only [orderSum, List.replicate_succ, List.map_cons, List.sum_cons] at ih ⊢; rw [ih]; simp [BondKind.order]; omega
  exact (no_wraparound _).2 (by rw [this]; simp [hcountOf])
example : (Atom.mk (.aliphatic .S) [⟨.double, 0⟩, ⟨.single, 1⟩]).suppressedHydrogens = 1 := by decide
example : (Atom.mk (.aromatic .N) [⟨.aromatic, 0⟩]).suppressedHydrogens = 1 := by decide

end Purr.C17
