/-
  C11 — Traversal accepts exactly well-formed adjacency lists.

  On the repaired tree (fix D10) `walk` validates the whole adjacency list against the definition
  of a well-formed simple graph before it reports anything to the follower.
-/
import Purr.Lemmas.ValidateL
import Purr.Lemmas.WalkPanicL
namespace Purr.C11
open Purr Purr.Spec

/-- the validation pre-pass accepts exactly the well-formed adjacency lists -/
theorem validate_iff_wellformed (g : Graph) : validate g = none ↔ WellFormed g := validate_none_iff g

/-- (→) the traversal never reports success on an ill-formed adjacency list … -/
theorem walk_ok_wellformed (g : Graph) (h : (walk g).2 = .ok) : WellFormed g := by
  apply (validate_none_iff g).mp
  unfold walk at h
  split at h
  · cases h
  · assumption

/-- … and it hands the follower nothing at all: no unbalanced or altered molecule is ever written -/
theorem walk_illformed_silent (g : Graph) (h : ¬ WellFormed g) : ∃ e, walk g = ([], .err e) := by
  cases hv : validate g with
  | none => exact absurd ((validate_none_iff g).mp hv) h
  | some e => exact ⟨e, by simp [walk, hv]⟩

/-- what it means for an error value to identify a bond that really has that defect -/
def ErrorReal (g : Graph) : WalkError → Prop
  | .unknownTarget a t => ∃ atom, g[a]? = some atom ∧ (∃ b ∈ atom.bonds, b.tid = t) ∧ g.length ≤ t
  | .loop a => ∃ atom, g[a]? = some atom ∧ ∃ b ∈ atom.bonds, b.tid = a
  | .halfBond a t => ∃ atom tatom, g[a]? = some atom ∧ g[t]? = some tatom ∧
      (∃ b ∈ atom.bonds, b.tid = t) ∧ bondsTo tatom.bonds a = []
  | .duplicateBond a t => ∃ atom tatom, g[a]? = some atom ∧ g[t]? = some tatom ∧
      (2 ≤ (bondsTo atom.bonds t).length ∨ 2 ≤ (bondsTo tatom.bonds a).length)
  | .incompatibleBond t a => ∃ atom tatom b back, g[a]? = some atom ∧ g[t]? = some tatom ∧
      b ∈ atom.bonds ∧ b.tid = t ∧ bondsTo tatom.bonds a = [back] ∧ b.kind ≠ back.kind.reverse

theorem checkBond_error_real {g : Graph} {a : Nat} {atom : Atom} (ha : g[a]? = some atom) {b : Bond}
    (hb : b ∈ atom.bonds) {e : WalkError} (h : checkBond g a b = some e) : ErrorReal g e := by
  unfold checkBond at h
  split at h
  · rename_i hlen; cases h
    exact ⟨atom, ha, ⟨b, hb, rfl⟩, hlen⟩
  · split at h
    · rename_i hself; cases h
      exact ⟨atom, ha, b, hb, hself⟩
    · rename_i hlen hself
      simp only [ha] at h
      have hlt : b.tid < g.length := by omega
      obtain ⟨tatom, ht⟩ : ∃ tatom, g[b.tid]? = some tatom := ⟨g[b.tid], List.getElem?_eq_getElem hlt⟩
      simp only [ht] at h
      split at h
      · rename_i hdup; cases h
        exact ⟨atom, tatom, ha, ht, Or.inl (by rw [countTo_eq] at hdup; omega)⟩
      · change (match bondsTo tatom.bonds a with
              | [] => some (WalkError.halfBond a b.tid)
              | [back] => if b.kind ≠ back.kind.reverse then some (WalkError.incompatibleBond b.tid a) else none
              | _ => some (WalkError.duplicateBond a b.tid)) = some e at h
        split at h
        · rename_i hnil; cases h
          exact ⟨atom, tatom, ha, ht, ⟨b, hb, rfl⟩, hnil⟩
        · rename_i back hone
          split at h
          · rename_i hk; cases h
            exact ⟨atom, tatom, b, back, ha, ht, hb, rfl, hone, hk⟩
          · cases h
        · rename_i hne1 hne2
          cases h
          refine ⟨atom, tatom, ha, ht, Or.inr ?_⟩
          cases hl : bondsTo tatom.bonds a with
          | nil => exact absurd hl hne1
          | cons x xs =>
            cases xs with
            | nil => exact absurd hl (hne2 x)
            | cons y ys => simp

/-- the error returned for an ill-formed adjacency list names a bond that really has that defect -/
theorem walk_error_is_real (g : Graph) (e : WalkError) (h : (walk g).2 = .err e) (hv : validate g ≠ none) :
    ErrorReal g e := by
  unfold walk at h
  split at h
  · rename_i e' he'
    cases h
    obtain ⟨a, atom, b, ha, hb, hc⟩ := validate_some he'
    exact checkBond_error_real ha hb hc
  · rename_i hn; exact absurd hn hv

theorem validate_error_is_real (g : Graph) (e : WalkError) (h : validate g = some e) : ErrorReal g e := by
  obtain ⟨a, atom, b, ha, hb, hc⟩ := validate_some h
  exact checkBond_error_real ha hb hc

/-- (←, partial) a well-formed adjacency list is never rejected with an error, and the follower receives a
    protocol-conformant history for it.  The full converse `WellFormed g → (walk g).2 = .ok` does not
    hold of the code: with more than 99 ring closures open at the same time the traversal panics (known
    finding D17), so the theorem excludes errors and leaves the `panic` verdict to C06/C13. -/
theorem wellformed_not_rejected (g : Graph) (h : WellFormed g) : ∀ e, (walk g).2 ≠ .err e := by
  intro e
  unfold walk
  rw [(validate_none_iff g).mpr h]
  exact compLoop_wellformed h _ _ _ e

theorem walk_verdict_of_wellformed (g : Graph) (h : WellFormed g) :
    (walk g).2 = .ok ∨ (walk g).2 = .panic "join_pool.rs:rnum" := by
  cases hv : (walk g).2 with
  | ok => exact Or.inl rfl
  | err e => exact absurd hv (wellformed_not_rejected g h e)
  | panic p => rw [walk_panic_only_rnum g p hv]; exact Or.inr rfl

/-! non-vacuity: the three-atom witnesses of the former defect D10 are ill-formed and rejected -/
example : validate [⟨.star, [⟨.elided, 1⟩]⟩, ⟨.star, [⟨.elided, 0⟩, ⟨.elided, 2⟩]⟩, ⟨.star, [⟨.elided, 1⟩, ⟨.elided, 0⟩]⟩]
    = some (.halfBond 2 0) := by decide
example : validate [⟨.star, [⟨.elided, 1⟩, ⟨.elided, 1⟩]⟩, ⟨.star, [⟨.elided, 0⟩]⟩] = some (.duplicateBond 0 1) := by decide
example : validate [⟨.star, [⟨.up, 1⟩]⟩, ⟨.star, [⟨.down, 0⟩]⟩] = none := by decide

end Purr.C11
