/-
  C15 — The trace maps every atom, bond and ring digit to its exact cursor.

  Proved here for every string (accepted or not, the trace being filled up to the
  error): the trace never panics on the reader's calls; the i-th entry of its atom table is a character
  range `a < b ≤ |s|` such that reading an atom at `s.drop a` succeeds and stops exactly at `s.drop b`
  (slicing the input there gives the token), there are exactly as many entries as atom events (ids past
  the last atom map to nothing); the k-th ring-closure token likewise; every cursor in the bond table is the
  position of a bond token of the input — reading a bond there yields the bond symbol when one is written and
  nothing when the bond is elided, and is followed by the target atom or ring-closure token, so an elided bond
  maps to the first character of its target token and each end of a ring closure reports its own digit
  (`bond_cursor_is_bond_token`); and for every accepted string that builds, the trace's atom ids and bond keys
  are exactly those of the built graph: as many atoms, and an entry for `(x, y)` iff atom `x` has a bond to
  atom `y` (`trace_matches_built_graph`, builder / trace lock-step over the same events).
  The complete trace dump of the real `Trace` is still compared with the model's on every run.
-/
import Purr.Lemmas.TraceIdxL
import Purr.Lemmas.TraceEndsL
import Purr.Lemmas.TokOrderL
import Purr.Props.C02
import Purr.Lemmas.TraceL
import Purr.Lemmas.ProtoL
import Purr.Lemmas.TraceBondL
namespace Purr.C15
open Purr

/-- the trace's `expect("last on stack")` / `panic!("overpop")` are unreachable on the reader's calls -/
theorem trace_no_panic (s : Str) : (trace? s).isSome := by
  unfold trace?
  apply trun_safe s.length _ (ps := none) (t := .init) rfl
  have := runL_erase .needRoot [0] s
  have h2 : (readL s).1.map LEvent.erase = (read s).1 := by
    unfold readL read; rw [← this]
  rw [h2]
  have := run_conformant .needRoot [0] s ⟨0, [], rfl, by simp⟩
  simpa [stOf, read] using this

/-- atom i maps to exactly the character range of its token -/
theorem trace_atom_is_token (s : Str) (t : TState) (ht : trace? s = some t) (i : Nat) (a b : Nat)
    (hi : t.atom i = some (a, b)) :
    a < b ∧ b ≤ s.length ∧ ∃ k, readAtom (s.drop a) = .ok k (s.drop b) := by
  unfold trace? at ht
  obtain ⟨hat, _⟩ := trun_atoms s.length _ _ _ ht
  simp only [TState.init, List.nil_append] at hat
  unfold TState.atom at hi
  rw [hat] at hi
  have hmem : (a, b) ∈ atomSpans s.length (readL s).1 := List.mem_of_getElem? hi
  obtain ⟨ev, hev, hcase⟩ := mem_atomSpans hmem
  have hspan := runL_spans .needRoot [0] s ev hev
  have key : ∀ k a' e', (∃ x y, Suffix x s ∧ x.length = a' ∧ y.length = e' ∧ readAtom x = .ok k y) →
      (a, b) = (s.length - a', s.length - e') →
      a < b ∧ b ≤ s.length ∧ ∃ k, readAtom (s.drop a) = .ok k (s.drop b) := by
    intro k a' e' ⟨x, y, hx, hxa, hye, hr⟩ hp
    cases hp
    have hlen := readAtom_len hr
    have hxs := hx.length_le
    have hys : Suffix y s := ((readAtom_shape x).ok hr).suffix.trans hx
    have hyl := hys.length_le
    refine ⟨by omega, by omega, k, ?_⟩
    rw [← hxa, ← hye, hx.eq_drop, hys.eq_drop]; exact hr
  rcases hcase with ⟨k, a', e', rfl, hp⟩ | ⟨bk, k, a', e', rfl, hp⟩
  · exact key k a' e' hspan hp
  · exact key k a' e' hspan hp

/-- ids past the last atom map to nothing: the table has exactly one entry per atom event -/
theorem trace_atom_count (s : Str) (t : TState) (ht : trace? s = some t) :
    t.atoms.length = (atomSpans s.length (readL s).1).length ∧
    ∀ i, t.atoms.length ≤ i → t.atom i = none := by
  unfold trace? at ht
  obtain ⟨hat, _⟩ := trun_atoms s.length _ _ _ ht
  simp only [TState.init, List.nil_append] at hat
  refine ⟨by rw [hat], ?_⟩
  intro i hi
  unfold TState.atom
  exact List.getElem?_eq_none_iff.mpr hi

/-- the k-th ring-closure token maps to its character range -/
theorem trace_rnum_is_token (s : Str) (t : TState) (ht : trace? s = some t) (k : Nat) (a b : Nat)
    (hk : t.rnum k = some (a, b)) :
    a < b ∧ b ≤ s.length ∧ ∃ r, readRnum (s.drop a) = .ok r (s.drop b) := by
  unfold trace? at ht
  obtain ⟨_, hrt⟩ := trun_atoms s.length _ _ _ ht
  simp only [TState.init, List.nil_append] at hrt
  unfold TState.rnum at hk
  rw [hrt] at hk
  have hmem : (a, b) ∈ rnumSpans s.length (readL s).1 := List.mem_of_getElem? hk
  obtain ⟨ev, hev, bk, r, bc, a', e', rfl, hp⟩ := mem_rnumSpans hmem
  obtain ⟨w, x, y, hw, hwl, hb, hxa, hye, hr⟩ := runL_spans .needRoot [0] s _ hev
  cases hp
  have hlen := readRnum_len hr
  have hxw : Suffix x w := by
    have := (readBond_consumes w).suffix; rw [hb] at this; exact this
  have hx : Suffix x s := hxw.trans hw
  have hys : Suffix y s := ((readRnum_shape x).ok hr).suffix.trans hx
  have hxs := hx.length_le
  have hyl := hys.length_le
  refine ⟨by omega, by omega, r, ?_⟩
  rw [← hxa, ← hye, hx.eq_drop, hys.eq_drop]; exact hr

/-! ### the index side: entry i is atom i's own token, entry k is the k-th ring-closure token -/

theorem erase_readL (s : Str) : (readL s).1.map LEvent.erase = (read s).1 := by
  have := runL_erase .needRoot [0] s
  exact congrArg Prod.fst this

/-- ATOM i MAPS TO ITS OWN TOKEN: entry `i` of the atom table is the range of the token of the `i`-th atom the reader
    reported (`writtenAtoms`), that token reads as exactly the kind reported, and atom `i` of the built graph carries
    that kind (with the `@`/`@@` mark of a non-root atom that has a hydrogen adjusted, the convention of C03) -/
theorem trace_atom_is_its_token (s : Str) (t : TState) (ht : trace? s = some t) (i : Nat) (a b : Nat)
    (hi : t.atom i = some (a, b)) :
    ∃ isRoot k, (writtenAtoms (read s).1)[i]? = some (isRoot, k) ∧ readAtom (s.drop a) = .ok k (s.drop b) ∧
      ∀ g, build? (read s).1 = some (.ok g) → (g[i]?).map Atom.kind = some (if isRoot then k else k.invert) := by
  unfold trace? at ht
  obtain ⟨hat, _⟩ := trun_atoms s.length _ _ _ ht
  simp only [TState.init, List.nil_append] at hat
  unfold TState.atom at hi
  rw [hat, atomSpans_eq, List.getElem?_map] at hi
  cases hp : (atomToks (readL s).1)[i]? with
  | none => rw [hp] at hi; cases hi
  | some p =>
    rw [hp] at hi
    simp only [Option.map_some, Option.some.injEq, Prod.mk.injEq] at hi
    obtain ⟨ha, hb⟩ := hi
    have hmem : p ∈ atomToks (readL s).1 := List.mem_of_getElem? hp
    have hspan : ∃ x y, Suffix x s ∧ x.length = p.2.2.1 ∧ y.length = p.2.2.2 ∧ readAtom x = .ok p.2.1 y := by
      rcases atomToks_mem hmem with ⟨ev, hev, rfl⟩ | ⟨bk, ev, hev, rfl⟩
      · exact runL_spans .needRoot [0] s _ hev
      · exact runL_spans .needRoot [0] s _ hev
    obtain ⟨x, y, hx, hxa, hye, hr⟩ := hspan
    have hys : Suffix y s := ((readAtom_shape x).ok hr).suffix.trans hx
    refine ⟨p.1, p.2.1, ?_, ?_, ?_⟩
    · rw [← erase_readL, writtenAtoms_erase, List.getElem?_map, hp]; rfl
    · rw [← ha, ← hb, ← hxa, ← hye, hx.eq_drop, hys.eq_drop]; exact hr
    · intro g hg
      have hk := C02.atoms_in_order _ g hg
      have : (g.map Atom.kind)[i]? = some (if p.1 then p.2.1 else p.2.1.invert) := by
        rw [hk, atomKinds_written, ← erase_readL, writtenAtoms_erase, List.map_map, List.getElem?_map, hp]; rfl
      rw [List.getElem?_map] at this
      exact this

/-- ATOMS ARE NUMBERED IN ORDER OF APPEARANCE, AND THEIR RANGES DO NOT OVERLAP: for `i < j` the token of atom `i` ends
    at or before the start of the token of atom `j` -/
theorem trace_atoms_in_string_order (s : Str) (t : TState) (ht : trace? s = some t) (i j : Nat) (hij : i < j)
    (a b a' b' : Nat) (hi : t.atom i = some (a, b)) (hj : t.atom j = some (a', b')) : b ≤ a' := by
  unfold trace? at ht
  obtain ⟨hat, _⟩ := trun_atoms s.length _ _ _ ht
  simp only [TState.init, List.nil_append] at hat
  unfold TState.atom at hi hj
  rw [hat, atomSpans_eq, List.getElem?_map] at hi hj
  obtain ⟨hbound, hpw⟩ := atomToks_in_order (readL s).1 s.length (runL_desc .needRoot [0] s)
  cases hp : (atomToks (readL s).1)[i]? with
  | none => rw [hp] at hi; cases hi
  | some p =>
    cases hq : (atomToks (readL s).1)[j]? with
    | none => rw [hq] at hj; cases hj
    | some q =>
      rw [hp] at hi; rw [hq] at hj
      simp only [Option.map_some, Option.some.injEq, Prod.mk.injEq] at hi hj
      have hrel : q.2.2.1 ≤ p.2.2.2 := by
        have hi' : i < (atomToks (readL s).1).length := by
          apply Nat.lt_of_not_le; intro hge
          rw [List.getElem?_eq_none_iff.mpr hge] at hp; cases hp
        have hj' : j < (atomToks (readL s).1).length := by
          apply Nat.lt_of_not_le; intro hge
          rw [List.getElem?_eq_none_iff.mpr hge] at hq; cases hq
        have := List.pairwise_iff_getElem.mp hpw i j hi' hj' hij
        rw [List.getElem?_eq_getElem hi'] at hp
        rw [List.getElem?_eq_getElem hj'] at hq
        cases hp; cases hq
        exact this
      have hqb := hbound q (List.mem_of_getElem? hq)
      omega

/-- THE k-TH RING-CLOSURE TOKEN: entry `k` of the ring-closure table is the range of the token of the `k`-th join the
    reader reported, and that token reads as exactly the ring number reported -/
theorem trace_rnum_is_its_token (s : Str) (t : TState) (ht : trace? s = some t) (k : Nat) (a b : Nat)
    (hk : t.rnum k = some (a, b)) :
    ∃ bk r, (writtenJoins (read s).1)[k]? = some (bk, r) ∧ readRnum (s.drop a) = .ok r (s.drop b) := by
  unfold trace? at ht
  obtain ⟨_, hrt⟩ := trun_atoms s.length _ _ _ ht
  simp only [TState.init, List.nil_append] at hrt
  unfold TState.rnum at hk
  rw [hrt, rnumSpans_eq, List.getElem?_map] at hk
  cases hp : (joinToks (readL s).1)[k]? with
  | none => rw [hp] at hk; cases hk
  | some p =>
    rw [hp] at hk
    simp only [Option.map_some, Option.some.injEq, Prod.mk.injEq] at hk
    obtain ⟨ha, hb⟩ := hk
    have hmem := joinToks_mem (List.mem_of_getElem? hp)
    obtain ⟨w, x, y, hw, hwl, hbd, hxa, hye, hr⟩ := runL_spans .needRoot [0] s _ hmem
    have hxw : Suffix x w := by
      have := (readBond_consumes w).suffix; rw [hbd] at this; exact this
    have hx : Suffix x s := hxw.trans hw
    have hys : Suffix y s := ((readRnum_shape x).ok hr).suffix.trans hx
    refine ⟨p.1, p.2.1, ?_, ?_⟩
    · rw [← erase_readL, writtenJoins_erase, List.getElem?_map, hp]; rfl
    · rw [← ha, ← hb, ← hxa, ← hye, hx.eq_drop, hys.eq_drop]; exact hr

/-- RING-CLOSURE TOKENS ARE NUMBERED IN ORDER OF APPEARANCE AND DO NOT OVERLAP: for `k < k'` the token of entry `k` ends
    at or before the start of the token of entry `k'` — so entry `k` is THE `k`-th ring-closure token of the string,
    not merely a token carrying the `k`-th join's number -/
theorem trace_rnums_in_string_order (s : Str) (t : TState) (ht : trace? s = some t) (i j : Nat) (hij : i < j)
    (a b a' b' : Nat) (hi : t.rnum i = some (a, b)) (hj : t.rnum j = some (a', b')) : b ≤ a' := by
  unfold trace? at ht
  obtain ⟨_, hrt⟩ := trun_atoms s.length _ _ _ ht
  simp only [TState.init, List.nil_append] at hrt
  unfold TState.rnum at hi hj
  rw [hrt, rnumSpans_eq, List.getElem?_map] at hi hj
  obtain ⟨hbound, hpw⟩ := joinToks_in_order (readL s).1 s.length (runL_desc .needRoot [0] s)
  cases hp : (joinToks (readL s).1)[i]? with
  | none => rw [hp] at hi; cases hi
  | some p =>
    cases hq : (joinToks (readL s).1)[j]? with
    | none => rw [hq] at hj; cases hj
    | some q =>
      rw [hp] at hi; rw [hq] at hj
      simp only [Option.map_some, Option.some.injEq, Prod.mk.injEq] at hi hj
      have hrel : q.2.2.2.1 ≤ p.2.2.2.2 := by
        have hi' : i < (joinToks (readL s).1).length := by
          apply Nat.lt_of_not_le; intro hge
          rw [List.getElem?_eq_none_iff.mpr hge] at hp; cases hp
        have hj' : j < (joinToks (readL s).1).length := by
          apply Nat.lt_of_not_le; intro hge
          rw [List.getElem?_eq_none_iff.mpr hge] at hq; cases hq
        have := List.pairwise_iff_getElem.mp hpw i j hi' hj' hij
        rw [List.getElem?_eq_getElem hi'] at hp
        rw [List.getElem?_eq_getElem hj'] at hq
        cases hp; cases hq
        exact this
      have hqb := hbound q (List.mem_of_getElem? hq)
      omega

/-- THE LAST CLAUSE OF THE PROPERTY — a build error can be shown at the right place.  If building what was read fails with
    `Rnum(i)` (an unmatched ring-closure digit, C10), then entry `i` of the trace's ring-closure table exists, is a
    non-empty range inside the string, and the token there reads as the number `r` of the `i`-th ring-closure digit the
    reader reported; no later digit carries `r`, and the string carries `r` an odd number of times: the last, unanswered
    occurrence — the digit the error is about (with `trace_rnums_in_string_order`: the `i`-th ring token of the string). -/
theorem rnum_error_points_at_its_token (s : Str) (t : TState) (ht : trace? s = some t) (i : Nat)
    (hb : build? (read s).1 = some (.error (.rnum i))) :
    ∃ a b bk r, t.rnum i = some (a, b) ∧ a < b ∧ b ≤ s.length ∧ readRnum (s.drop a) = .ok r (s.drop b) ∧
      (writtenJoins (read s).1)[i]? = some (bk, r) ∧
      (∀ j, i < j → ((writtenJoins (read s).1)[j]?).map (·.2) ≠ some r) ∧
      countR (read s).1 r % 2 = 1 := by
  obtain ⟨bk, r, h1, hlast, h3⟩ := C10.build_rnum_error_is_real _ i hb
  have h1keep := h1
  have ht0 := ht
  unfold trace? at ht
  obtain ⟨_, hrt⟩ := trun_atoms s.length _ _ _ ht
  simp only [TState.init, List.nil_append] at hrt
  rw [← erase_readL, writtenJoins_erase, List.getElem?_map] at h1
  cases hp : (joinToks (readL s).1)[i]? with
  | none => rw [hp] at h1; cases h1
  | some p =>
    have hk : t.rnum i = some (s.length - p.2.2.2.1, s.length - p.2.2.2.2) := by
      unfold TState.rnum
      rw [hrt, rnumSpans_eq, List.getElem?_map, hp]; rfl
    obtain ⟨hab, hbs, _⟩ := trace_rnum_is_token s t ht0 i _ _ hk
    obtain ⟨bk', r', h1', hr'⟩ := trace_rnum_is_its_token s t ht0 i _ _ hk
    rw [← erase_readL, writtenJoins_erase, List.getElem?_map] at h1'
    rw [h1'] at h1
    simp only [Option.some.injEq, Prod.mk.injEq] at h1
    obtain ⟨_, rfl⟩ := h1
    exact ⟨_, _, bk, r', hk, hab, hbs, hr', h1keep, hlast, h3⟩

theorem replay_count : ∀ (es : List Event) (st : List Nat) (n : Nat), (Spec.replay st n es).2 = n + (writtenAtoms es).length
  | [], _, _ => by simp [Spec.replay, writtenAtoms]
  | .root _ :: es, st, n => by simp only [Spec.replay, writtenAtoms, List.length_cons]; rw [replay_count es]; omega
  | .extend _ _ :: es, st, n => by simp only [Spec.replay, writtenAtoms, List.length_cons]; rw [replay_count es]; omega
  | .pop _ :: es, st, n => by simp only [Spec.replay, writtenAtoms]; rw [replay_count es]
  | .join _ _ :: es, st, n => by simp only [Spec.replay, writtenAtoms]; rw [replay_count es]

/-- … and if it fails with `Join(a, c)` (a ring closure that cannot be made, C10), both atoms have an entry in the
    trace's atom table, each the exact range of the token of the `a`-th / `c`-th atom the reader reported (in string order,
    `trace_atoms_in_string_order`) -/
theorem join_error_points_at_its_atoms (s : Str) (t : TState) (ht : trace? s = some t) (a c : Nat)
    (hb : build? (read s).1 = some (.error (.join a c))) :
    ∃ a1 a2 c1 c2, t.atom a = some (a1, a2) ∧ t.atom c = some (c1, c2) ∧
      a1 < a2 ∧ a2 ≤ s.length ∧ c1 < c2 ∧ c2 ≤ s.length ∧
      (∃ isRoot k, (writtenAtoms (read s).1)[a]? = some (isRoot, k) ∧ readAtom (s.drop a1) = .ok k (s.drop a2)) ∧
      (∃ isRoot k, (writtenAtoms (read s).1)[c]? = some (isRoot, k) ∧ readAtom (s.drop c1) = .ok k (s.drop c2)) := by
  obtain ⟨pre, bk, r, post, s1, hsplit, hpre, herr, hdef⟩ := C10.build_join_error_is_real _ a c hb
  have hinv : DInv pre s1 := by simpa using DInv.run pre DInv.init hpre herr
  obtain ⟨hhead, _, tnode, _, hg, _, _⟩ := hdef
  have hmem : a ∈ s1.stack := by
    cases hst : s1.stack with
    | nil => rw [hst] at hhead; cases hhead
    | cons x xs => rw [hst] at hhead; simp at hhead; subst hhead; simp
  have ha : a < s1.graph.length := hinv.stlt a hmem
  have hc : c < s1.graph.length := by
    apply Nat.lt_of_not_le; intro hge
    rw [List.getElem?_eq_none_iff.mpr hge] at hg; cases hg
  have hlen : s1.graph.length ≤ (writtenAtoms (read s).1).length := by
    rw [hinv.len, replay_count, hsplit]
    have h2 := replay_count (pre ++ Event.join bk r :: post) [] 0
    rw [replay_append, replay_count, replay_count] at h2
    omega
  obtain ⟨hcount, _⟩ := trace_atom_count s t ht
  have htl : t.atoms.length = (writtenAtoms (read s).1).length := by
    rw [hcount, atomSpans_eq, List.length_map, ← erase_readL, writtenAtoms_erase, List.length_map]
  have hsa : ∃ p, t.atom a = some p := by
    unfold TState.atom
    exact ⟨t.atoms[a]'(by omega), List.getElem?_eq_getElem (by omega)⟩
  have hsc : ∃ p, t.atom c = some p := by
    unfold TState.atom
    exact ⟨t.atoms[c]'(by omega), List.getElem?_eq_getElem (by omega)⟩
  obtain ⟨⟨a1, a2⟩, hpa⟩ := hsa
  obtain ⟨⟨c1, c2⟩, hpc⟩ := hsc
  obtain ⟨h1, h2, _⟩ := trace_atom_is_token s t ht a a1 a2 hpa
  obtain ⟨h4, h5, _⟩ := trace_atom_is_token s t ht c c1 c2 hpc
  obtain ⟨ra, ka, h3, h3', _⟩ := trace_atom_is_its_token s t ht a a1 a2 hpa
  obtain ⟨rc, kc, h6, h6', _⟩ := trace_atom_is_its_token s t ht c c1 c2 hpc
  exact ⟨a1, a2, c1, c2, hpa, hpc, h1, h2, h4, h5, ⟨ra, ka, h3, h3'⟩, ⟨rc, kc, h6, h6'⟩⟩

/-! non-vacuity of the two theorems above: the text the writer gives for `C1` (an unmatched digit) and for `C11` (a
    self-bond) is accepted, traced, and fails to build with `Rnum(0)` and `Join(0, 0)` -/
example : ∃ s t, trace? s = some t ∧ build? (read s).1 = some (.error (.rnum 0)) := by
  obtain ⟨txt, _, hr⟩ := C09.read_write [.root (.aliphatic .C), .join .elided ⟨1, by decide⟩] ⟨1, rfl⟩
  obtain ⟨t, ht⟩ := Option.isSome_iff_exists.mp (trace_no_panic txt)
  exact ⟨txt, t, ht, by rw [hr]; rfl⟩
example : ∃ s t, trace? s = some t ∧ build? (read s).1 = some (.error (.join 0 0)) := by
  obtain ⟨txt, _, hr⟩ := C09.read_write [.root (.aliphatic .C), .join .elided ⟨1, by decide⟩, .join .elided ⟨1, by decide⟩] ⟨1, rfl⟩
  obtain ⟨t, ht⟩ := Option.isSome_iff_exists.mp (trace_no_panic txt)
  exact ⟨txt, t, ht, by rw [hr]; rfl⟩

/-- every bond cursor is the position of a bond token: `s.drop c` begins with the bond symbol of kind `b` when one
    is written (`readBond` consumes it) or, when the bond is elided (`readBond` consumes nothing), directly with
    the target atom or ring-closure token -/
theorem bond_cursor_is_bond_token (s : Str) (t : TState) (ht : trace? s = some t) (x y c : Nat) (hb : t.bond x y = some c) :
    ∃ b w rest, c + w.length = s.length ∧ s.drop c = w ∧ readBond w = (b, rest) ∧
      ((∃ k r, readAtom rest = .ok k r) ∨ (∃ n r, readRnum rest = .ok n r)) := by
  obtain ⟨b, w, rest, hw, hc, hrb, htok⟩ := trace_bond_cursor s t ht x y c hb
  have hle := hw.length_le
  refine ⟨b, w, rest, by omega, ?_, hrb, htok⟩
  rw [hc]; exact hw.eq_drop

/-- EACH DIRECTION OF A BOND REPORTS ITS OWN END.  If the trace maps the bond from atom `x` to atom `y` to cursor `c`,
    then the text at `c` is a bond token of some kind `b` (its symbol, or nothing when elided) and directly after it comes
    * either the atom token of the later of the two atoms — the trace's own range for that atom — which the reader
      attached with exactly that bond kind `b` (a chain or branch bond: both directions report this one place),
    * or the `k`-th ring-closure token — the trace's own range for it — which was written while `x` was the head atom
      and whose join event carried exactly that bond kind `b` (a ring closure: `x → y` reports `x`'s digit, `y → x`
      reports `y`'s). -/
theorem bond_cursor_is_own_end (s : Str) (t : TState) (ht : trace? s = some t) (x y c : Nat) (hb : t.bond x y = some c) :
    ∃ b rest, c ≤ s.length ∧ readBond (s.drop c) = (b, rest) ∧
      ((∃ ch q, (ch = x ∨ ch = y) ∧ x ≤ ch ∧ y ≤ ch ∧ x ≠ y ∧ t.atom ch = some (s.length - rest.length, q) ∧
          (atomBondsE (read s).1)[ch]? = some (some b))
       ∨ (∃ k q, t.rnum k = some (s.length - rest.length, q) ∧ (joinHeadsE [] 0 (read s).1)[k]? = some x ∧
          ((writtenJoins (read s).1)[k]?).map (·.1) = some b)) := by
  obtain ⟨b, rest, hle, hrb, hc⟩ := trace_bond_own_end s t ht x y c hb
  refine ⟨b, rest, hle, hrb, ?_⟩
  rcases hc with ⟨ch, q, h1, h2, h3, h4, h5, h6⟩ | ⟨k, q, h1, h2, h3⟩
  · refine Or.inl ⟨ch, q, h1, h2, h3, h4, h5, ?_⟩
    rw [← erase_readL, ← atomBonds_erase]; exact h6
  · refine Or.inr ⟨k, q, h1, ?_, ?_⟩
    · rw [← erase_readL, ← joinHeads_erase]; exact h2
    · rw [← erase_readL, writtenJoins_erase, List.getElem?_map]
      rw [List.getElem?_map] at h3
      cases hj : (joinToks (readL s).1)[k]? with
      | none => rw [hj] at h3; cases h3
      | some p => rw [hj] at h3; simpa using h3

/-! non-vacuity: the located events of `C1CC=1` (what `readL` produces for it): the two directions of the ring closure
    0–2 report the cursors of their own digits (1 and, with the `=`, 4), the two directions of a chain bond the same one -/
example : (trun 6 .init [.root (.aliphatic .C) 6 5, .join .elided ⟨1, by decide⟩ 5 5 4, .extend .elided (.aliphatic .C) 4 3,
      .extend .elided (.aliphatic .C) 3 2, .join .double ⟨1, by decide⟩ 2 1 0]).map
      (fun t => (t.bond 0 2, t.bond 2 0, t.bond 0 1, t.bond 1 0, t.bond 1 2)) =
    some (some 1, some 4, some 2, some 2, some 3) := by decide

/-- atom ids and bond keys of the trace are those of the graph built from the same string -/
theorem trace_matches_built_graph (s : Str) (t : TState) (g : Graph) (ht : trace? s = some t)
    (hb : build? (read s).1 = some (.ok g)) :
    t.atoms.length = g.length ∧
    ∀ x y, (t.bond x y).isSome = true ↔ ∃ atom, g[x]? = some atom ∧ ∃ b ∈ atom.bonds, b.tid = y :=
  trace_keys_are_bonds s t g ht hb

end Purr.C15
