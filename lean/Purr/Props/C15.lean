/-
  C15 — The trace maps every atom, bond and ring digit to its exact cursor.

  PARTIAL (stage 1).  Proved here for every string (accepted or not, the trace being filled up to the
  error): the trace never panics on the reader's calls; the i-th entry of its atom table is a character
  range `a < b ≤ |s|` such that reading an atom at `s.drop a` succeeds and stops exactly at `s.drop b`
  (slicing the input there gives the token), there are exactly as many entries as atom events (ids past
  the last atom map to nothing); the k-th ring-closure token likewise.  Not yet theorems: the bond table
  (`trace.bond a t` is the position of the bond symbol, or of the first character of the target token when
  elided, the two directions of a ring closure reporting their own ends) and the identification of table
  index i with atom i of the *built* graph (needs the builder/trace lock-step, stated in DESIGN.md 4.15).
  Those are decided on every run by the S-read correspondence, which compares the complete trace dump
  (atoms, every bond key, ring digits) of the real `Trace` with the model's, and by the slicing oracle.
-/
import Purr.Lemmas.TraceL
import Purr.Lemmas.ProtoL
namespace Purr.C15
open Purr

/-- the trace's `expect("last on stack")` / `panic!("overpop")` are unreachable on the reader's calls -/
theorem trace_no_panic (s : Str) : (trace? s).isSome := by
  unfold trace?
  apply trun_safe s.length _ (ps := none) (t := .init) rfl
  have := runL_erase .needRoot [0] s
  have h2 : (readL s).1.map LEvent.erase = (read s).1 := by
    unfold readL read; rw [← this]
  rw [h2]
  have := run_conformant .needRoot [0] s ⟨0, [], rfl, by simp⟩
  simpa [stOf, read] using this

/-- atom i maps to exactly the character range of its token -/
theorem trace_atom_is_token (s : Str) (t : TState) (ht : trace? s = some t) (i : Nat) (a b : Nat)
    (hi : t.atom i = some (a, b)) :
    a < b ∧ b ≤ s.length ∧ ∃ k, readAtom (s.drop a) = .ok k (s.drop b) := by
  unfold trace? at ht
  obtain ⟨hat, _⟩ := trun_atoms s.length _ _ _ ht
  simp only [TState.init, List.nil_append] at hat
  unfold TState.atom at hi
  rw [hat] at hi
  have hmem : (a, b) ∈ atomSpans s.length (readL s).1 := List.mem_of_getElem? hi
  obtain ⟨ev, hev, hcase⟩ := mem_atomSpans hmem
  have hspan := runL_spans .needRoot [0] s ev hev
  have key : ∀ k a' e', (∃ x y, Suffix x s ∧ x.length = a' ∧ y.length = e' ∧ readAtom x = .ok k y) →
      (a, b) = (s.length - a', s.length - e') →
      a < b ∧ b ≤ s.length ∧ ∃ k, readAtom (s.drop a) = .ok k (s.drop b) := by
    intro k a' e' ⟨x, y, hx, hxa, hye, hr⟩ hp
    cases hp
    have hlen := readAtom_len hr
    have hxs := hx.length_le
    have hys : Suffix y s := ((readAtom_shape x).ok hr).suffix.trans hx
    have hyl := hys.length_le
    refine ⟨by omega, by omega, k, ?_⟩
    rw [← hxa, ← hye, hx.eq_drop, hys.eq_drop]; exact hr
  rcases hcase with ⟨k, a', e', rfl, hp⟩ | ⟨bk, k, a', e', rfl, hp⟩
  · exact key k a' e' hspan hp
  · exact key k a' e' hspan hp

/-- ids past the last atom map to nothing: the table has exactly one entry per atom event -/
theorem trace_atom_count (s : Str) (t : TState) (ht : trace? s = some t) :
    t.atoms.length = (atomSpans s.length (readL s).1).length ∧
    ∀ i, t.atoms.length ≤ i → t.atom i = none := by
  unfold trace? at ht
  obtain ⟨hat, _⟩ := trun_atoms s.length _ _ _ ht
  simp only [TState.init, List.nil_append] at hat
  refine ⟨by rw [hat], ?_⟩
  intro i hi
  unfold TState.atom
  exact List.getElem?_eq_none_iff.mpr hi

/-- the k-th ring-closure token maps to its character range -/
theorem trace_rnum_is_token (s : Str) (t : TState) (ht : trace? s = some t) (k : Nat) (a b : Nat)
    (hk : t.rnum k = some (a, b)) :
    a < b ∧ b ≤ s.length ∧ ∃ r, readRnum (s.drop a) = .ok r (s.drop b) := by
  unfold trace? at ht
  obtain ⟨_, hrt⟩ := trun_atoms s.length _ _ _ ht
  simp only [TState.init, List.nil_append] at hrt
  unfold TState.rnum at hk
  rw [hrt] at hk
  have hmem : (a, b) ∈ rnumSpans s.length (readL s).1 := List.mem_of_getElem? hk
  obtain ⟨ev, hev, bk, r, bc, a', e', rfl, hp⟩ := mem_rnumSpans hmem
  obtain ⟨w, x, y, hw, hwl, hb, hxa, hye, hr⟩ := runL_spans .needRoot [0] s _ hev
  cases hp
  have hlen := readRnum_len hr
  have hxw : Suffix x w := by
    have := (readBond_consumes w).suffix; rw [hb] at this; exact this
  have hx : Suffix x s := hxw.trans hw
  have hys : Suffix y s := ((readRnum_shape x).ok hr).suffix.trans hx
  have hxs := hx.length_le
  have hyl := hys.length_le
  refine ⟨by omega, by omega, r, ?_⟩
  rw [← hxa, ← hye, hx.eq_drop, hys.eq_drop]; exact hr

end Purr.C15
