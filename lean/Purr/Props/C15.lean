/-
  C15 — The trace maps every atom, bond and ring digit to its exact cursor.

  Proved here for every string (accepted or not, the trace being filled up to the
  error): the trace never panics on the reader's calls; the i-th entry of its atom table is a character
  range `a < b ≤ |s|` such that reading an atom at `s.drop a` succeeds and stops exactly at `s.drop b`
  (slicing the input there gives the token), there are exactly as many entries as atom events (ids past
  the last atom map to nothing); the k-th ring-closure token likewise; every cursor in the bond table is the
  position of a bond token of the input — reading a bond there yields the bond symbol when one is written and
  nothing when the bond is elided, and is followed by the target atom or ring-closure token, so an elided bond
  maps to the first character of its target token and each end of a ring closure reports its own digit
  (`bond_cursor_is_bond_token`); and for every accepted string that builds, the trace's atom ids and bond keys
  are exactly those of the built graph: as many atoms, and an entry for `(x, y)` iff atom `x` has a bond to
  atom `y` (`trace_matches_built_graph`, builder / trace lock-step over the same events).
  The complete trace dump of the real `Trace` is still compared with the model's on every run.
-/
import Purr.Lemmas.TraceL
import Purr.Lemmas.ProtoL
import Purr.Lemmas.TraceBondL
namespace Purr.C15
open Purr

/-- the trace's `expect("last on stack")` / `panic!("overpop")` are unreachable on the reader's calls -/
theorem trace_no_panic (s : Str) : (trace? s).isSome := by
  unfold trace?
  apply trun_safe s.length _ (ps := none) (t := .init) rfl
  have := runL_erase .needRoot [0] s
  have h2 : (readL s).1.map LEvent.erase = (read s).1 := by
    unfold readL read; rw [← this]
  rw [h2]
  have := run_conformant .needRoot [0] s ⟨0, [], rfl, by simp⟩
  simpa [stOf, read] using this

/-- atom i maps to exactly the character range of its token -/
theorem trace_atom_is_token (s : Str) (t : TState) (ht : trace? s = some t) (i : Nat) (a b : Nat)
    (hi : t.atom i = some (a, b)) :
    a < b ∧ b ≤ s.length ∧ ∃ k, readAtom (s.drop a) = .ok k (s.drop b) := by
  unfold trace? at ht
  obtain ⟨hat, _⟩ := trun_atoms s.length _ _ _ ht
  simp only [TState.init, List.nil_append] at hat
  unfold TState.atom at hi
  rw [hat] at hi
  have hmem : (a, b) ∈ atomSpans s.length (readL s).1 := List.mem_of_getElem? hi
  obtain ⟨ev, hev, hcase⟩ := mem_atomSpans hmem
  have hspan := runL_spans .needRoot [0] s ev hev
  have key : ∀ k a' e', (∃ x y, Suffix x s ∧ x.length = a' ∧ y.length = e' ∧ readAtom x = .ok k y) →
      (a, b) = (s.length - a', s.length - e') →
      a < b ∧ b ≤ s.length ∧ ∃ k, readAtom (s.drop a) = .ok k (s.drop b) := by
    intro k a' e' ⟨x, y, hx, hxa, hye, hr⟩ hp
    cases hp
    have hlen := readAtom_len hr
    have hxs := hx.length_le
    have hys : Suffix y s := ((readAtom_shape x).ok hr).suffix.trans hx
    have hyl := hys.length_le
    refine ⟨by omega, by omega, k, ?_⟩
    rw [← hxa, ← hye, hx.eq_drop, hys.eq_drop]; exact hr
  rcases hcase with ⟨k, a', e', rfl, hp⟩ | ⟨bk, k, a', e', rfl, hp⟩
  · exact key k a' e' hspan hp
  · exact key k a' e' hspan hp

/-- ids past the last atom map to nothing: the table has exactly one entry per atom event -/
theorem trace_atom_count (s : Str) (t : TState) (ht : trace? s = some t) :
    t.atoms.length = (atomSpans s.length (readL s).1).length ∧
    ∀ i, t.atoms.length ≤ i → t.atom i = none := by
  unfold trace? at ht
  obtain ⟨hat, _⟩ := trun_atoms s.length _ _ _ ht
  simp only [TState.init, List.nil_append] at hat
  refine ⟨by rw [hat], ?_⟩
  intro i hi
  unfold TState.atom
  exact List.getElem?_eq_none_iff.mpr hi

/-- the k-th ring-closure token maps to its character range -/
theorem trace_rnum_is_token (s : Str) (t : TState) (ht : trace? s = some t) (k : Nat) (a b : Nat)
    (hk : t.rnum k = some (a, b)) :
    a < b ∧ b ≤ s.length ∧ ∃ r, readRnum (s.drop a) = .ok r (s.drop b) := by
  unfold trace? at ht
  obtain ⟨_, hrt⟩ := trun_atoms s.length _ _ _ ht
  simp only [TState.init, List.nil_append] at hrt
  unfold TState.rnum at hk
  rw [hrt] at hk
  have hmem : (a, b) ∈ rnumSpans s.length (readL s).1 := List.mem_of_getElem? hk
  obtain ⟨ev, hev, bk, r, bc, a', e', rfl, hp⟩ := mem_rnumSpans hmem
  obtain ⟨w, x, y, hw, hwl, hb, hxa, hye, hr⟩ := runL_spans .needRoot [0] s _ hev
  cases hp
  have hlen := readRnum_len hr
  have hxw : Suffix x w := by
    have := (readBond_consumes w).suffix; rw [hb] at this; exact this
  have hx : Suffix x s := hxw.trans hw
  have hys : Suffix y s := ((readRnum_shape x).ok hr).suffix.trans hx
  have hxs := hx.length_le
  have hyl := hys.length_le
  refine ⟨by omega, by omega, r, ?_⟩
  rw [← hxa, ← hye, hx.eq_drop, hys.eq_drop]; exact hr

/-- every bond cursor is the position of a bond token: `s.drop c` begins with the bond symbol of kind `b` when one
    is written (`readBond` consumes it) or, when the bond is elided (`readBond` consumes nothing), directly with
    the target atom or ring-closure token -/
theorem bond_cursor_is_bond_token (s : Str) (t : TState) (ht : trace? s = some t) (x y c : Nat) (hb : t.bond x y = some c) :
    ∃ b w rest, c + w.length = s.length ∧ s.drop c = w ∧ readBond w = (b, rest) ∧
      ((∃ k r, readAtom rest = .ok k r) ∨ (∃ n r, readRnum rest = .ok n r)) := by
  obtain ⟨b, w, rest, hw, hc, hrb, htok⟩ := trace_bond_cursor s t ht x y c hb
  have hle := hw.length_le
  refine ⟨b, w, rest, by omega, ?_, hrb, htok⟩
  rw [hc]; exact hw.eq_drop

/-- atom ids and bond keys of the trace are those of the graph built from the same string -/
theorem trace_matches_built_graph (s : Str) (t : TState) (g : Graph) (ht : trace? s = some t)
    (hb : build? (read s).1 = some (.ok g)) :
    t.atoms.length = g.length ∧
    ∀ x y, (t.bond x y).isSome = true ↔ ∃ atom, g[x]? = some atom ∧ ∃ b ∈ atom.bonds, b.tid = y :=
  trace_keys_are_bonds s t g ht hb

end Purr.C15
