/-
  C06 — No input makes the library panic, overflow or abort.

  Every `expect` / `unreachable!` / indexing / overflow site of the Rust code is an explicit
  `panic` outcome of the model (never totalised away); the theorems say those outcomes are
  unreachable from the public entry points.  Termination of every model function is checked by
  Lean itself (structural recursion, or the measure `2·|input| + rank mode` for the reader), which is
  the model-level statement that no loop runs forever.

  Proved so far (the list grows; see DESIGN.md 4.6 for the site table):
    * reading any string: no panic site of the token readers or of `read` is reachable;
    * the string writer never panics on the events of the reader or of the traversal;
    * the hydrogen-count queries cannot overflow: the result always fits (≤ 9) whatever the degree.
    * the graph builder never panics on the events of the reader or of the traversal.
    * the traversal of ANY adjacency list: its internal `expect("chain head")` and `atoms` lookups are
      unreachable and the loop terminates (the model's fuel is never exhausted) — the only panic the
      traversal can reach is the exhausted ring-number pool (`walk_only_panics_on_rnum`, D17 below).
    * the trace never panics on the reader's calls (C15 `trace_no_panic`).
  Known findings (not provable because false): more than 99 simultaneously open ring closures
  (`expect("rnum")`, D17) and stack exhaustion on deeply nested parentheses (D18).
-/
import Purr.Props.C08
import Purr.Props.C17
import Purr.Lemmas.WalkPanicL
namespace Purr.C06
open Purr

/-- `read` never reaches a panic site (`expect("charge")`, `expect("rnum to u16")`, `unreachable!`, …) -/
theorem read_no_panic (s : Str) : ∀ site, (read s).2 ≠ .panic site := run_no_panic .needRoot [0] s

theorem readL_no_panic (s : Str) : ∀ site, (readL s).2 ≠ .panic site := by
  intro site h
  have := runL_erase .needRoot [0] s
  have h2 : (run .needRoot [0] s).2 = (runL .needRoot [0] s).2 := by rw [← this]
  exact run_no_panic .needRoot [0] s site (by rw [h2]; exact h)

/-- every token reader is panic-free on every input -/
theorem atom_reader_no_panic (s : Str) : ∀ site, readAtom s ≠ .panic site := readAtom_no_panic s
theorem rnum_reader_no_panic (s : Str) : ∀ site, readRnum s ≠ .panic site := readRnum_no_panic s

/-- reading into the string writer: the writer's `expect("last")` / `panic!("overpop")` are unreachable -/
theorem read_into_writer_no_panic (s : Str) : (write? (read s).1).isSome := C08.reader_never_panics_writer s

/-- reading into the graph builder, and building: no `expect("last on stack")`, no index out of range, no
    `expect("edge for rnum")` -/
theorem read_into_builder_no_panic (s : Str) : (build? (read s).1).isSome := C08.reader_never_panics_builder s

/-- traversing any adjacency list whatsoever into the graph builder -/
theorem walk_into_builder_no_panic (g : Graph) : (build? (walk g).1).isSome := C08.walker_never_panics_builder g

/-- traversing any adjacency list whatsoever into the string writer -/
theorem walk_into_writer_no_panic (g : Graph) : (write? (walk g).1).isSome := C08.walker_never_panics_writer g

/-- the traversal of ANY adjacency list (well-formed or garbage): every internal panic site is unreachable and
    the loop terminates; the one panic that remains is the ring-number pool running out (known finding D17) -/
theorem walk_only_panics_on_rnum (g : Graph) (site : String) (h : (walk g).2 = .panic site) :
    site = "join_pool.rs:rnum" := walk_panic_only_rnum g site h

/-- the hydrogen-count queries return a value that fits a byte with room to spare, for any degree -/
theorem hydrogens_no_overflow (a : Atom) : a.subvalence ≤ 6 ∧ a.suppressedHydrogens ≤ 9 :=
  ⟨(C17.no_wraparound a).1, C17.hydrogens_le a⟩

end Purr.C06
