/-
  C06 — No input makes the library panic, overflow or abort.

  The `expect` / `unreachable!` / indexing / overflow sites of the Rust code are explicit `panic`
  outcomes of the model, and the theorems say those outcomes are unreachable from the public entry
  points.  Three groups of sites have no `panic` outcome in the model because the surrounding code makes
  them unreachable at a glance; for these the "glance" is a theorem (`number_sites_unreachable`,
  `configuration_sites_unreachable`, Purr/Lemmas/ExpectL.lean): `expect("number")` after at most three
  digits (read_bracket.rs:81,109), `unreachable!("TB1X"/"OH1X"/"OH2X")` after a first digit that may take a
  second one (read_configuration.rs), and the `expect`s of read_rnum.rs, whose bound is proved inside the
  definition of `readRnum`.  Termination of every model function is checked by
  Lean itself (structural recursion, or the measure `2·|input| + rank mode` for the reader), which is
  the model-level statement that no loop runs forever.

  Proved so far (the list grows; see DESIGN.md 4.6 for the site table):
    * reading any string: no panic site of the token readers or of `read` is reachable;
    * the string writer never panics on the events of the reader or of the traversal;
    * the hydrogen-count queries cannot overflow: the result always fits (≤ 9) whatever the degree.
    * the graph builder never panics on the events of the reader or of the traversal.
    * the traversal of ANY adjacency list: its internal `expect("chain head")` and `atoms` lookups are
      unreachable and the loop terminates (the model's fuel is never exhausted) — the only panic the
      traversal can reach is the exhausted ring-number pool (`walk_only_panics_on_rnum`, D17 below).
    * the trace never panics on the reader's calls (C15 `trace_no_panic`).
  Known findings (not provable because false): more than 99 simultaneously open ring closures
  (`expect("rnum")`, D17) and stack exhaustion on deeply nested parentheses (D18).
-/
import Purr.Props.C08
import Purr.Props.C17
import Purr.Lemmas.WalkPanicL
import Purr.Lemmas.ExpectL
import Purr.Props.C15
namespace Purr.C06
open Purr

/-- `read` never reaches a panic site (`expect("charge")`, `expect("rnum to u16")`, `unreachable!`, …) -/
theorem read_no_panic (s : Str) : ∀ site, (read s).2 ≠ .panic site := run_no_panic .needRoot [0] s

theorem readL_no_panic (s : Str) : ∀ site, (readL s).2 ≠ .panic site := by
  intro site h
  have := runL_erase .needRoot [0] s
  have h2 : (run .needRoot [0] s).2 = (runL .needRoot [0] s).2 := by rw [← this]
  exact run_no_panic .needRoot [0] s site (by rw [h2]; exact h)

/-- every token reader is panic-free on every input -/
theorem atom_reader_no_panic (s : Str) : ∀ site, readAtom s ≠ .panic site := readAtom_no_panic s
theorem rnum_reader_no_panic (s : Str) : ∀ site, readRnum s ≠ .panic site := readRnum_no_panic s

/-- reading into the string writer: the writer's `expect("last")` / `panic!("overpop")` are unreachable -/
theorem read_into_writer_no_panic (s : Str) : (write? (read s).1).isSome := C08.reader_never_panics_writer s

/-- reading into the graph builder, and building: no `expect("last on stack")`, no index out of range, no
    `expect("edge for rnum")` -/
theorem read_into_builder_no_panic (s : Str) : (build? (read s).1).isSome := C08.reader_never_panics_builder s

/-- traversing any adjacency list whatsoever into the graph builder -/
theorem walk_into_builder_no_panic (g : Graph) : (build? (walk g).1).isSome := C08.walker_never_panics_builder g

/-- traversing any adjacency list whatsoever into the string writer -/
theorem walk_into_writer_no_panic (g : Graph) : (write? (walk g).1).isSome := C08.walker_never_panics_writer g

/-- the traversal of ANY adjacency list (well-formed or garbage): every internal panic site is unreachable and
    the loop terminates; the one panic that remains is the ring-number pool running out (known finding D17) -/
theorem walk_only_panics_on_rnum (g : Graph) (site : String) (h : (walk g).2 = .panic site) :
    site = "join_pool.rs:rnum" := walk_panic_only_rnum g site h

/-- the hydrogen-count queries return a value that fits a byte with room to spare, for any degree -/
theorem hydrogens_no_overflow (a : Atom) : a.subvalence ≤ 6 ∧ a.suppressedHydrogens ≤ 9 :=
  ⟨(C17.no_wraparound a).1, C17.hydrogens_le a⟩

/-- `digits.try_into().expect("number")` (read_bracket.rs:81 and :109) cannot fail: once the first digit of an isotope or
    of a map number has been seen, at most three digits are collected and the value converts -/
theorem number_sites_unreachable (c : Char) (r : Str) (h : isDigit c = true) :
    ((readIsotope (c :: r)).1).isSome = true ∧ ∃ v rest, readMap (':' :: c :: r) = .ok (some v) rest :=
  ⟨readIsotope_number c r h, readMap_number c r h⟩

/-- `unreachable!("TB1X")`, `unreachable!("OH1X")`, `unreachable!("OH2X")` (read_configuration.rs): every value the
    two-digit readers can assemble on those paths is a configuration, so the conversion the model writes as `cfgRes`
    never sees `none` there -/
theorem configuration_sites_unreachable :
    ((∀ e, e < 10 → (Configuration.tb? (10 * 1 + e)).isSome = true) ∧ (Configuration.tb? (10 * 2)).isSome = true ∧
      ∀ d, d < 10 → 1 ≤ d → (Configuration.tb? d).isSome = true) ∧
    ((∀ d, d < 3 → 1 ≤ d → ∀ e, e < 10 → (Configuration.oh? (10 * d + e)).isSome = true) ∧
      (Configuration.oh? (10 * 3)).isSome = true ∧ ∀ d, d < 10 → 1 ≤ d → (Configuration.oh? d).isSome = true) :=
  ⟨tb_two_digit_total, oh_two_digit_total⟩

/-- reading with a trace: `expect("last on stack")` and `panic!("overpop")` of trace.rs are unreachable (C15) -/
theorem read_with_trace_no_panic (s : Str) : (trace? s).isSome := C15.trace_no_panic s

end Purr.C06
