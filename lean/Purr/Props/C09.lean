/-
  C09 — The string writer and the reader are mutually inverse on event histories.
-/
import Purr.Lemmas.WriteReadL
import Purr.Props.C08
namespace Purr.C09
open Purr

/-- T-wr.  For every protocol-conformant, non-empty history the writer does not panic, and the reader
    accepts its text and replays exactly the same calls — same atom kinds, bond kinds, ring numbers and
    pop depths, up to the shorthands of C07 (`Event.norm`: AL1/AL2 read back as TH1/TH2, H0 as absent). -/
theorem read_write (es : List Event) (h : ConformantNE es) :
    ∃ t, write? es = some t ∧ read t = (es.map Event.norm, .ok) := by
  obtain ⟨n, hn⟩ := h
  cases es with
  | nil => simp [protoRun] at hn
  | cons e es =>
    cases e with
    | root k =>
      simp only [protoRun, stepProto] at hn
      have h0 : WInv [k.text] [[.root k.norm]] := .first (link_root_first k)
      obtain ⟨st', Es', hw, hinv, hev⟩ := wfold_inv es h0 n (by simpa using hn)
      obtain ⟨m, hm⟩ := hinv.read
      have hr := hm 0 [] [] Starts.nil
      refine ⟨st'.reverse.flatten, ?_, ?_⟩
      · simp [write?, wrun, wstep, hw]
      · simp only [List.append_nil] at hr
        unfold read
        rw [hr, hev]
        simp only [Nat.zero_add]
        rw [run_body_nil]
        simp [pre, evs, Event.norm]
    | _ => simp [protoRun, stepProto] at hn

theorem cfg_norm_text (o : Option Configuration) :
    optText Configuration.text (o.map Configuration.norm) = optText Configuration.text o := by
  cases o with
  | none => rfl
  | some c => cases c <;> rfl

theorem hnorm_text (o : Option VirtualHydrogen) :
    optText VirtualHydrogen.text (hnorm o) = optText VirtualHydrogen.text o := by
  cases o with
  | none => rfl
  | some h =>
    simp only [hnorm]
    split
    · rename_i h0; simp [optText, VirtualHydrogen.text, h0]
    · rfl

/-- the written spelling of a kind does not distinguish what `norm` identifies -/
theorem norm_text (k : AtomKind) : k.norm.text = k.text := by
  cases k with
  | bracket b => simp only [AtomKind.norm, AtomKind.text, Bracket.norm, cfg_norm_text, hnorm_text]
  | _ => rfl

theorem wstep_norm (st : List Str) (e : Event) : wstep st e.norm = wstep st e := by
  cases e <;> simp [Event.norm, wstep, norm_text]

theorem wrun_norm : ∀ (es : List Event) (st : List Str), wrun st (es.map Event.norm) = wrun st es
  | [], _ => rfl
  | e :: es, st => by
    simp only [List.map_cons, wrun, wstep_norm]
    split
    · exact wrun_norm es _
    · rfl

theorem write_norm (es : List Event) : write? (es.map Event.norm) = write? es := by
  simp [write?, wrun_norm]

theorem protoRun_some_none {ps : Option Nat} : ∀ {es : List Event}, protoRun ps es = some none → es = [] ∧ ps = none
  | [], h => by simp [protoRun] at h; exact ⟨rfl, h⟩
  | e :: es, h => by
    simp only [protoRun] at h
    split at h
    · rename_i ps' hs
      obtain ⟨_, hps'⟩ := protoRun_some_none h
      subst hps'
      cases ps <;> cases e <;> simp [stepProto] at hs
    · cases h

/-- an accepted string's history is conformant and non-empty -/
theorem accepted_conformantNE {s : Str} {es : List Event} (h : read s = (es, .ok)) : ConformantNE es := by
  have hc := C08.reader_conformant s
  rw [h] at hc
  unfold Conformant at hc
  cases hp : protoRun none es with
  | none => rw [hp] at hc; cases hc
  | some ps =>
    cases ps with
    | some n => exact ⟨n, hp⟩
    | none =>
      obtain ⟨hnil, _⟩ := protoRun_some_none hp
      subst hnil
      -- an empty history never comes with the verdict ok
      exfalso
      unfold read at h
      rw [run.eq_def] at h
      simp only [] at h
      split at h <;> simp at h

/-- every accepted string: the reader's events, written and read again, are replayed identically -/
theorem read_write_read (s : Str) (es : List Event) (h : read s = (es, .ok)) :
    ∃ t, write? es = some t ∧ read t = (es.map Event.norm, .ok) :=
  read_write es (accepted_conformantNE h)

/-- re-writing what was read from writer output reproduces it character for character -/
theorem write_read_write (es : List Event) (h : ConformantNE es) :
    ∃ t, write? es = some t ∧ write? (read t).1 = some t := by
  obtain ⟨t, hw, hr⟩ := read_write es h
  exact ⟨t, hw, by rw [hr]; simp only; rw [write_norm]; exact hw⟩

/-- any follower (a fold over the event list) reaches the same result whether it is driven directly with
    the normalised history or through the text -/
theorem follower_same_result {σ : Type} (f : σ → Event → σ) (init : σ) (es : List Event) (h : ConformantNE es) :
    ∃ t, write? es = some t ∧ (read t).1.foldl f init = (es.map Event.norm).foldl f init := by
  obtain ⟨t, hw, hr⟩ := read_write es h
  exact ⟨t, hw, by rw [hr]⟩

/-! non-vacuity -/
example : ConformantNE [.root (.aliphatic .C), .join .elided ⟨1, by decide⟩, .extend .double (.aliphatic .Cl),
    .root (.bracket ⟨none, .element .Cs, some .AL1, some ⟨0, by decide⟩, none, none⟩), .pop 2, .join .up ⟨1, by decide⟩] :=
  ⟨1, by decide⟩

end Purr.C09
