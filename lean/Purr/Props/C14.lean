/-
  C14 — Written output is a deterministic fixed point.

  What a theorem can say: the model's `walk` and `write?` are functions of the adjacency list — true by
  construction of a pure model, stated for the record — and no result depends on the iteration order of a
  map: every finite map of the model (`Pool.borrowed`, `BState.opens`, `TState.opens/bonds`) is used only
  through lookup by key, so permuting its entries changes nothing (`pool_find_perm`).  What a theorem
  cannot exhibit is the hash seed: that half is the correspondence's — every S-graph / S-read input is run
  by the harness in the main thread and in fresh threads (fresh `RandomState`s) and, in the thorough tier,
  in fresh processes, and must give byte-identical output, identical to the model's.

  Fixed point (`graph_fixed_point`, `string_fixed_point`): for EVERY well-formed adjacency list (rings
  included) on which the traversal succeeds, the written text `t` is accepted by the reader, builds a graph
  `g'`, and traversing and writing `g'` reproduces `t` character for character — the complete second cycle
  read → build → walk → write, not only read → write of the events.  Proof (Purr/Lemmas/FixL.lean): the
  traversals of the original graph and of the re-read graph run in lockstep; the re-read graph is the
  original renumbered by visit position with every arrival bond first, so every atom is entered through
  bond index 0 and the walker's and the builder's parity compensations cancel; the ring-number pools agree
  up to the renumbering of their keys.  The text-level statements (stage 1) are kept.
  `graph_fixed_point_walk` states it about `walk` itself (Purr/Lemmas/LoopRecL.lean: loop = recursion).
-/
import Purr.Props.C01
import Purr.Lemmas.PoolL
import Purr.Lemmas.FixL
import Purr.Lemmas.LoopRecL
namespace Purr.C14
open Purr Purr.Spec

/-- THE WRITTEN OUTPUT IS A FIXED POINT OF THE FULL ROUND TRIP: write `g`, read the text back and build `g'`;
    whatever the traversal of `g'` emits is written as the same text, character for character. -/
theorem graph_fixed_point (g : Graph) (hw : WellFormed g) (es : List (Event × Nat)) (ord : List Nat)
    (h : walkRecL g = some (es, ord)) (hne : es ≠ []) :
    ∃ t g', write? (es.map (·.1)) = some t ∧ (read t).2 = .ok ∧ build? (read t).1 = some (.ok g') ∧
      (∃ es' ord', walkRecL g' = some (es', ord')) ∧
      ∀ es' ord', walkRecL g' = some (es', ord') → write? (es'.map (·.1)) = some t := by
  obtain ⟨g1, hb, _, _, _, hfix, f, r, hcomps⟩ := rtc_fix g hw es ord h
  have hconf : Conformant (es.map (·.1)) := conformant_of_walkRec g es ord h
  have hne' : es.map (·.1) ≠ [] := by simpa using hne
  obtain ⟨t, hw', hr⟩ := C09.read_write _ (C01.conformantNE_of_nonempty hconf hne')
  have hbuild : build? (read t).1 = some (.ok (g1.map normAtom)) := by
    rw [hr]
    simp only
    rw [build_norm, hb]
    rfl
  refine ⟨t, g1.map normAtom, hw', by rw [hr], hbuild, ?_, ?_⟩
  · -- THE SECOND TRAVERSAL SUCCEEDS: it runs in lockstep with the first (`comps_fix`), so it needs no ring number the
    -- first one did not need
    have hwf : WellFormed (g1.map normAtom) := C10.build_ok_wellformed _ (C08.reader_conformant t) _ hbuild
    have hloop := comps_loop (g1.map normAtom) hwf f (List.range (g1.map normAtom).length) [] .init r.1 r.2.1 r.2.2 hcomps
      [] [] [] (fun x => Iff.rfl)
    have hok : (walk (g1.map normAtom)).2 = .ok := by
      unfold walk
      rw [(validate_none_iff _).mpr hwf]
      simp only
      rw [hloop]
    obtain ⟨es', ord', hr', _⟩ := walkRec_of_walk_ok _ hwf hok
    exact ⟨es', ord', hr'⟩
  · intro es' ord' h'
    rw [hfix es' ord' h', C09.write_norm]
    exact hw'

/-- the same, stated about `walk` itself on both cycles: if the traversal of the re-read graph ends with `ok`
    (by C06/C11 the only alternative is D17), writing it reproduces the text character for character -/
theorem graph_fixed_point_walk (g : Graph) (hw : WellFormed g) (hok : (walk g).2 = .ok) (hne : (walk g).1 ≠ []) :
    ∃ t g', write? (walk g).1 = some t ∧ (read t).2 = .ok ∧ build? (read t).1 = some (.ok g') ∧
      (walk g').2 = .ok ∧ write? (walk g').1 = some t := by
  obtain ⟨es, ord, hr, hev⟩ := walkRec_of_walk_ok g hw hok
  have hne' : es ≠ [] := by intro e; subst e; simp at hev; exact hne hev
  obtain ⟨t, g', h1, h2, h3, ⟨es', ord', hr'⟩, h4⟩ := graph_fixed_point g hw es ord hr hne'
  have hwalk := walk_eq_walkRec g' es' ord' hr'
  refine ⟨t, g', by rw [← hev]; exact h1, h2, h3, by rw [hwalk], ?_⟩
  rw [hwalk]; exact h4 es' ord' hr'

/-- … and for every accepted string that builds: the normal form written for its graph is a fixed point -/
theorem string_fixed_point (s : Str) (g : Graph) (hb : build? (read s).1 = some (.ok g))
    (es : List (Event × Nat)) (ord : List Nat) (h : walkRecL g = some (es, ord)) (hne : es ≠ []) :
    ∃ t g', write? (es.map (·.1)) = some t ∧ (read t).2 = .ok ∧ build? (read t).1 = some (.ok g') ∧
      (∃ es' ord', walkRecL g' = some (es', ord')) ∧
      ∀ es' ord', walkRecL g' = some (es', ord') → write? (es'.map (·.1)) = some t :=
  graph_fixed_point g (C10.build_ok_wellformed _ (C08.reader_conformant s) g hb) es ord h hne

/-! non-vacuity: the bicyclic example of C01 meets the hypotheses, and its re-read graph is traversed -/
example : ∃ es ord, walkRecL C01.exampleRings = some (es, ord) ∧ es ≠ [] :=
  ⟨(walkRecL C01.exampleRings).get!.1, (walkRecL C01.exampleRings).get!.2, by decide, by decide⟩

/-- writing is a function of the adjacency list (no hidden state): stated for the record -/
theorem write_deterministic (g g' : Graph) (h : g = g') : write? (walk g).1 = write? (walk g').1 := by rw [h]

/-- the text written for any adjacency list is in normal form with respect to read-then-write -/
theorem text_fixed_point (g : Graph) (hne : (walk g).1 ≠ []) :
    ∃ t, write? (walk g).1 = some t ∧ write? (read t).1 = some t :=
  C09.write_read_write _ (C01.conformantNE_of_nonempty (C08.walker_conformant g) hne)

/-- … and for every accepted string: rewriting its events gives a text that read-then-write reproduces -/
theorem string_text_fixed_point (s : Str) (es : List Event) (h : read s = (es, .ok)) :
    ∃ t, write? es = some t ∧ write? (read t).1 = some t :=
  C09.write_read_write es (C09.accepted_conformantNE h)

/-- no dependence on iteration order: looking a pair up in the pool gives the same answer for any
    permutation of the entries, provided no two entries have the same (unordered) key — which the pool
    invariant guarantees -/
theorem pool_find_perm {l l' : List ((Nat × Nat) × Nat)} (hp : l.Perm l')
    (hk : ∀ e ∈ l, ∀ f ∈ l, pairEq e.1 f.1 = true → e = f) (ab : Nat × Nat) :
    (l.find? (fun e => pairEq e.1 ab)).map (·.2) = (l'.find? (fun e => pairEq e.1 ab)).map (·.2) := by
  have key : ∀ (m : List ((Nat × Nat) × Nat)), (∀ e ∈ m, e ∈ l) → ∀ x, m.find? (fun e => pairEq e.1 ab) = some x →
      ∀ e ∈ l, pairEq e.1 ab = true → e = x := by
    intro m hm x hx e he hea
    have hxm := List.mem_of_find?_eq_some hx
    have hxa : pairEq x.1 ab = true := by simpa using List.find?_some hx
    exact hk e he x (hm x hxm) (pairEq_trans hea (by rw [pairEq_symm]; exact hxa))
  cases h1 : l.find? (fun e => pairEq e.1 ab) with
  | none =>
    have hnone : ∀ e ∈ l, pairEq e.1 ab = false := by
      intro e he
      have := List.find?_eq_none.mp h1 e he
      simpa using this
    have : l'.find? (fun e => pairEq e.1 ab) = none := by
      apply List.find?_eq_none.mpr
      intro e he
      simpa using hnone e (hp.symm.subset he)
    rw [this]
  | some x =>
    cases h2 : l'.find? (fun e => pairEq e.1 ab) with
    | none =>
      have := List.find?_eq_none.mp h2 x (hp.subset (List.mem_of_find?_eq_some h1))
      have hxa : pairEq x.1 ab = true := by simpa using List.find?_some h1
      simp [hxa] at this
    | some y =>
      have hy := List.mem_of_find?_eq_some h2
      have hya : pairEq y.1 ab = true := by simpa using List.find?_some h2
      have := key l (fun e he => he) x h1 y (hp.symm.subset hy) hya
      rw [this]

end Purr.C14
