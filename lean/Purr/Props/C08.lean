/-
  C08 — Follower event streams are always protocol-conformant.

  `Conformant` is the documented follower contract as a state machine (Purr/Model/Event.lean):
  the first event is a root, extend and join need a head atom, every pop has 1 ≤ depth < path length.
-/
import Purr.Lemmas.WalkL
import Purr.Lemmas.BuilderL
import Purr.Lemmas.RtcRing
import Purr.Lemmas.LoopRecL
namespace Purr.C08
open Purr Purr.Spec

/-- the reader on any string, valid or not: the whole emitted history (up to the error) is conformant -/
theorem reader_conformant (s : Str) : Conformant (read s).1 := by
  unfold Conformant read
  have := run_conformant .needRoot [0] s ⟨0, [], rfl, by simp⟩
  simpa [stOf] using this

/-- the reader's chain-length accounting: from any reachable reader state (`Good`), the events still to
    come are legal after the events already made — in particular every `pop` emitted at a `)` has a depth
    of at least one and less than the current path length -/
theorem reader_conformant_from (mode : Mode) (stack : List Nat) (s : Str) (hg : Good mode stack) :
    (protoRun (stOf stack) (run mode stack s).1).isSome := run_conformant mode stack s hg

/-- the traversal on any adjacency list whatsoever (dangling, duplicated, asymmetric bonds included),
    up to the point where it reports an error -/
theorem walker_conformant (g : Graph) : Conformant (walk g).1 := walk_proto g

/-- a follower written against the documented contract cannot be driven into its documented panics:
    the string writer accepts every conformant history -/
theorem conformant_writer_safe (es : List Event) (h : Conformant es) : (wrun [] es).isSome :=
  wrun_safe es (ps := none) (st := []) rfl h

/-- … and neither is the graph builder (headless extend/join, indexing, `expect("edge for rnum")`) -/
theorem conformant_builder_safe (es : List Event) (h : Conformant es) : (brun .init es).isSome :=
  brun_safe es BSafe.init h

theorem reader_never_panics_builder (s : Str) : (build? (read s).1).isSome := by
  have := conformant_builder_safe _ (reader_conformant s)
  simpa [build?] using this

theorem walker_never_panics_builder (g : Graph) : (build? (walk g).1).isSome := by
  have := conformant_builder_safe _ (walker_conformant g)
  simpa [build?] using this

theorem reader_never_panics_writer (s : Str) : (write? (read s).1).isSome := by
  have := conformant_writer_safe _ (reader_conformant s)
  simpa [write?] using this

theorem walker_never_panics_writer (g : Graph) : (write? (walk g).1).isSome := by
  have := conformant_writer_safe _ (walker_conformant g)
  simpa [write?] using this

/-- on well-formed adjacency lists the traversal emits its join events in matched pairs, one on each atom of
    the bond, with kinds that reconcile: driving the graph builder with the traversal's events ends with no
    unmatched ring number (`BuildError.rnum`), no pair rejected as a self / duplicate / irreconcilable bond
    (`BuildError.join`), and every bond of the graph — ring bonds included — recorded on both of its atoms
    (`Relabelled`: node `pos ord x` lists exactly the bonds of `x`).  `walkRec` is the recursive formulation
    of the traversal, compared with the real `walk` on every run. -/
theorem walker_joins_paired (g : Graph) (hw : WellFormed g) (es : List (Event × Nat)) (ord : List Nat)
    (h : walkRecL g = some (es, ord)) :
    ∃ g', build? (es.map (·.1)) = some (.ok g') ∧ Relabelled g ord g' := by
  obtain ⟨g', hb, hr, _, _⟩ := rtc g hw es ord h
  exact ⟨g', hb, hr⟩

/-- the same about `walk` itself: whenever the traversal of a well-formed adjacency list ends with `ok`, the
    builder driven by its events reports no unmatched, rejected or missing ring bond -/
theorem walker_joins_paired_walk (g : Graph) (hw : WellFormed g) (hok : (walk g).2 = .ok) :
    ∃ g' ord, build? (walk g).1 = some (.ok g') ∧ Relabelled g ord g' := by
  obtain ⟨es, ord, hr, hev⟩ := walkRec_of_walk_ok g hw hok
  obtain ⟨g', hb, hrel⟩ := walker_joins_paired g hw es ord hr
  exact ⟨g', ord, by rw [← hev]; exact hb, hrel⟩

/-- … and at the end of the traversal no ring number is left open in the pool's sense either: an opened
    number with no closing partner would leave a placeholder, which `build` reports -/
theorem unmatched_join_is_reported (s : BState) (n : Node) (e : Edge) (rid sid : Nat) (r : Rnum)
    (hn : n ∈ s.graph) (he : e ∈ n.edges) (ht : e.target = .rnum rid sid r) (herr : s.errors = []) :
    ∃ x, s.build = .error x := by
  unfold BState.build
  rw [herr]
  simp only
  have : ∀ (ns : List Node), n ∈ ns → ∃ x, buildNodes ns = .error x := by
    intro ns
    induction ns with
    | nil => intro h; cases h
    | cons m ms ih =>
      intro hm
      simp only [buildNodes]
      rcases List.mem_cons.mp hm with rfl | hm'
      · have : ∀ (es : List Edge), e ∈ es → ∃ x, nodeBonds es = .error x := by
          intro es
          induction es with
          | nil => intro h; cases h
          | cons f fs ih2 =>
            intro hf
            simp only [nodeBonds]
            rcases List.mem_cons.mp hf with rfl | hf'
            · rw [ht]; exact ⟨_, rfl⟩
            · cases hft : f.target with
              | rnum a b c => exact ⟨_, rfl⟩
              | id t =>
                obtain ⟨x, hx⟩ := ih2 hf'
                simp only [hx]; exact ⟨x, rfl⟩
        obtain ⟨x, hx⟩ := this n.edges he
        rw [hx]; exact ⟨x, rfl⟩
      · cases hnb : nodeBonds m.edges with
        | error x => exact ⟨x, rfl⟩
        | ok bs =>
          obtain ⟨x, hx⟩ := ih hm'
          simp only [hx]; exact ⟨x, rfl⟩
  exact this s.graph hn

/-! non-vacuity: `Conformant` accepts the history of `C(C)C` and rejects an over-deep pop -/
example : Conformant [.root (.aliphatic .C), .extend .elided (.aliphatic .C), .pop 1, .extend .elided (.aliphatic .C)] := by decide
example : ¬ Conformant [.root .star, .pop 1] := by decide
example : ¬ Conformant [.extend .elided .star] := by decide
example : Good .needRoot [0] := ⟨0, [], rfl, by simp⟩

end Purr.C08
