/-
  C08 — Follower event streams are always protocol-conformant.

  `Conformant` is the documented follower contract as a state machine (Purr/Model/Event.lean):
  the first event is a root, extend and join need a head atom, every pop has 1 ≤ depth < path length.
-/
import Purr.Lemmas.WalkL
import Purr.Lemmas.BuilderL
namespace Purr.C08
open Purr

/-- the reader on any string, valid or not: the whole emitted history (up to the error) is conformant -/
theorem reader_conformant (s : Str) : Conformant (read s).1 := by
  unfold Conformant read
  have := run_conformant .needRoot [0] s ⟨0, [], rfl, by simp⟩
  simpa [stOf] using this

/-- the reader's chain-length accounting: from any reachable reader state (`Good`), the events still to
    come are legal after the events already made — in particular every `pop` emitted at a `)` has a depth
    of at least one and less than the current path length -/
theorem reader_conformant_from (mode : Mode) (stack : List Nat) (s : Str) (hg : Good mode stack) :
    (protoRun (stOf stack) (run mode stack s).1).isSome := run_conformant mode stack s hg

/-- the traversal on any adjacency list whatsoever (dangling, duplicated, asymmetric bonds included),
    up to the point where it reports an error -/
theorem walker_conformant (g : Graph) : Conformant (walk g).1 := walk_proto g

/-- a follower written against the documented contract cannot be driven into its documented panics:
    the string writer accepts every conformant history -/
theorem conformant_writer_safe (es : List Event) (h : Conformant es) : (wrun [] es).isSome :=
  wrun_safe es (ps := none) (st := []) rfl h

/-- … and neither is the graph builder (headless extend/join, indexing, `expect("edge for rnum")`) -/
theorem conformant_builder_safe (es : List Event) (h : Conformant es) : (brun .init es).isSome :=
  brun_safe es BSafe.init h

theorem reader_never_panics_builder (s : Str) : (build? (read s).1).isSome := by
  have := conformant_builder_safe _ (reader_conformant s)
  simpa [build?] using this

theorem walker_never_panics_builder (g : Graph) : (build? (walk g).1).isSome := by
  have := conformant_builder_safe _ (walker_conformant g)
  simpa [build?] using this

theorem reader_never_panics_writer (s : Str) : (write? (read s).1).isSome := by
  have := conformant_writer_safe _ (reader_conformant s)
  simpa [write?] using this

theorem walker_never_panics_writer (g : Graph) : (write? (walk g).1).isSome := by
  have := conformant_writer_safe _ (walker_conformant g)
  simpa [write?] using this

/-! non-vacuity: `Conformant` accepts the history of `C(C)C` and rejects an over-deep pop -/
example : Conformant [.root (.aliphatic .C), .extend .elided (.aliphatic .C), .pop 1, .extend .elided (.aliphatic .C)] := by decide
example : ¬ Conformant [.root .star, .pop 1] := by decide
example : ¬ Conformant [.extend .elided .star] := by decide
example : Good .needRoot [0] := ⟨0, [], rfl, by simp⟩

end Purr.C08
