/-
  C18 — Feature type conversions are exact, total on their range and inverse.
  Property theorems only (helper lemmas live in Purr/Lemmas).  The conversions are the
  model's (`Purr/Model/Feature.lean`, `Token.lean`); every row of the corresponding Rust
  tables is tied to them by the exhaustive S-table correspondence suite.
-/
import Purr.Lemmas.Digits
namespace Purr.C18
open Purr

/-! ### integer conversions: defined exactly on the documented range, inverse, injective -/

theorem charge_range (z : Int) : (Charge.ofInt? z).isSome ↔ (z ≠ 0 ∧ -15 ≤ z ∧ z ≤ 15) := by
  unfold Charge.ofInt?; split <;> simp_all

theorem charge_back {z : Int} {c : Charge} (h : Charge.ofInt? z = some c) : c.val = z := by
  unfold Charge.ofInt? at h; split at h <;> simp at h; rw [← h]

theorem charge_total (c : Charge) : Charge.ofInt? c.val = some c := by
  unfold Charge.ofInt?; simp [c.ok]

theorem charge_injective {z₁ z₂ : Int} {c : Charge}
    (h₁ : Charge.ofInt? z₁ = some c) (h₂ : Charge.ofInt? z₂ = some c) : z₁ = z₂ := by
  rw [← charge_back h₁, ← charge_back h₂]

theorem hcount_range (n : Nat) : (VirtualHydrogen.ofNat? n).isSome ↔ n < 10 := by
  unfold VirtualHydrogen.ofNat?; split <;> simp_all
theorem hcount_back {n : Nat} {h : VirtualHydrogen} (e : VirtualHydrogen.ofNat? n = some h) : h.val = n := by
  unfold VirtualHydrogen.ofNat? at e; split at e <;> simp at e; rw [← e]
theorem hcount_total (h : VirtualHydrogen) : VirtualHydrogen.ofNat? h.val = some h := by
  unfold VirtualHydrogen.ofNat?; simp [h.lt]

theorem rnum_range (n : Nat) : (Rnum.ofNat? n).isSome ↔ n < 100 := by
  unfold Rnum.ofNat?; split <;> simp_all
theorem rnum_back {n : Nat} {r : Rnum} (e : Rnum.ofNat? n = some r) : r.val = n := by
  unfold Rnum.ofNat? at e; split at e <;> simp at e; rw [← e]
theorem rnum_total (r : Rnum) : Rnum.ofNat? r.val = some r := by
  unfold Rnum.ofNat?; simp [r.lt]

theorem number_range (n : Nat) : (Number.ofNat? n).isSome ↔ n < 1000 := by
  unfold Number.ofNat?; split <;> simp_all
theorem number_back {n : Nat} {x : Number} (e : Number.ofNat? n = some x) : x.val = n := by
  unfold Number.ofNat? at e; split at e <;> simp at e; rw [← e]
theorem number_total (x : Number) : Number.ofNat? x.val = some x := by
  unfold Number.ofNat?; simp [x.lt]

/-! ### the integer is the number shown in the text form -/

/-- independent reading of a charge spelling: sign, then decimal magnitude (1 if absent) -/
def chargeTextValue : Str → Option Int
  | '+' :: r => some (if r = [] then 1 else (decVal r : Int))
  | '-' :: r => some (-(if r = [] then 1 else (decVal r : Int)))
  | _ => none

theorem charge_text_shows_value (c : Charge) : chargeTextValue c.text = some c.val := by
  have hr := c.ok
  have hlt : c.val.natAbs < 1000 := by omega
  have hd := decVal_natText hlt
  have hne : natText c.val.natAbs ≠ [] := by
    have := natText_length hlt; intro h; rw [h] at this; simp at this
  unfold Charge.text
  by_cases hneg : c.val < 0
  · by_cases h1 : c.val.natAbs = 1
    · simp [hneg, h1, chargeTextValue]; omega
    · simp [hneg, h1, chargeTextValue, hne, hd]; omega
  · by_cases h1 : c.val.natAbs = 1
    · simp [hneg, h1, chargeTextValue]; omega
    · simp [hneg, h1, chargeTextValue, hne, hd]; omega

theorem number_text_shows_value (x : Number) : decVal x.text = x.val := decVal_natText x.lt

theorem rnum_text_shows_value (r : Rnum) :
    (r.val < 10 → r.text = [digitChar r.val] ∧ decVal r.text = r.val) ∧
    (10 ≤ r.val → ∃ t, r.text = '%' :: t ∧ t.length = 2 ∧ decVal t = r.val) := by
  have := r.lt
  unfold Rnum.text
  constructor
  · intro h
    simp [h, decVal, List.foldl, digitVal_digitChar' (by omega : r.val < 10)]
  · intro h
    have h' : ¬ r.val < 10 := by omega
    refine ⟨[digitChar (r.val / 10), digitChar (r.val % 10)], by simp [h'], rfl, ?_⟩
    simp [decVal, List.foldl, digitVal_digitChar' (by omega : r.val / 10 < 10),
      digitVal_digitChar' (by omega : r.val % 10 < 10)]; omega

theorem hcount_text_shows_value (h : VirtualHydrogen) :
    h.text = (if h.val = 0 then [] else if h.val = 1 then ['H'] else ['H', digitChar h.val]) := rfl

/-! ### a Number can never be constructed outside its range by any public conversion -/

theorem number_never_out_of_range (x : Number) : x.val < 1000 := x.lt

theorem number_ofString_in_range {s : Str} {x : Number} (_ : Number.ofString? s = some x) : x.val < 1000 := x.lt

/-- `String → Number` agrees with `u16 → Number` on what the string denotes -/
theorem number_ofString_spec (s : Str) :
    Number.ofString? s =
      (let body := match s with | '+' :: r => r | _ => s
       if allDigits body ∧ decVal body < 1000 then Number.ofNat? (decVal body) else none) := by
  unfold Number.ofString? Number.ofNat?
  simp only [decVal, digitsVal]
  split <;> (simp only []; split <;> simp_all <;> (try split) <;> simp_all <;> omega)

theorem number_ofString_text (x : Number) : Number.ofString? x.text = some x := by
  have hd := natText_allDigits x.lt
  have hv := decVal_natText x.lt
  have hx := x.lt
  rw [number_ofString_spec]
  have hplus : ∀ r, x.text ≠ '+' :: r := by
    intro r h
    have : allDigits ('+' :: r) = true := by rw [← h]; exact hd
    simp [allDigits, isDigit] at this
  unfold Number.text at hplus ⊢
  split
  · rename_i r heq; exact absurd heq (hplus r)
  · simp [hd, hv, hx, Number.ofNat?]

/-! ### bond kinds -/

theorem reverse_involutive (k : BondKind) : k.reverse.reverse = k := by cases k <;> rfl

theorem reverse_moves_only_directional (k : BondKind) : k.reverse ≠ k ↔ (k = .up ∨ k = .down) := by
  cases k <;> simp [BondKind.reverse]

theorem reverse_swaps : BondKind.reverse .up = .down ∧ BondKind.reverse .down = .up := ⟨rfl, rfl⟩

theorem order_table (k : BondKind) :
    k.order = (match k with
      | .elided | .single | .up | .down | .aromatic => 1
      | .double => 2 | .triple => 3 | .quadruple => 4) := by
  cases k <;> rfl

theorem order_range (k : BondKind) : 1 ≤ k.order ∧ k.order ≤ 4 := by cases k <;> simp [BondKind.order]

/-! ### symbol conversions never change which element is meant -/

theorem bracketAromatic_to_aromatic_same_element {a : BracketAromatic} {x : Aromatic}
    (h : Aromatic.ofBracketAromatic? a = some x) : x.toAliphatic.toElement = a.toElement := by
  cases a <;> simp [Aromatic.ofBracketAromatic?] at h <;> subst h <;> rfl

theorem element_to_aliphatic_same_element {e : Element} {x : Aliphatic}
    (h : Aliphatic.ofElement? e = some x) : x.toElement = e := by
  cases x <;> cases e <;> simp [Aliphatic.ofElement?] at h <;> rfl

theorem aliphatic_of_own_element (x : Aliphatic) : Aliphatic.ofElement? x.toElement = some x := by
  cases x <;> rfl

theorem aromatic_of_own_bracket (x : Aromatic) :
    ∃ a, Aromatic.ofBracketAromatic? a = some x ∧ a.toElement = x.toAliphatic.toElement := by
  cases x
  · exact ⟨.B, rfl, rfl⟩
  · exact ⟨.C, rfl, rfl⟩
  · exact ⟨.N, rfl, rfl⟩
  · exact ⟨.O, rfl, rfl⟩
  · exact ⟨.P, rfl, rfl⟩
  · exact ⟨.S, rfl, rfl⟩

/-- the spelling of every symbol type is the element's symbol (lower-cased for aromatics) -/
theorem aliphatic_text_is_element_text (x : Aliphatic) : x.text = x.toElement.text := by cases x <;> rfl

def lowerFirst : Str → Str
  | c :: r => Char.ofNat (c.toNat + 32) :: r
  | [] => []

theorem aromatic_text_is_lowered_element_text (x : Aromatic) :
    x.text = lowerFirst x.toAliphatic.toElement.text := by cases x <;> decide

theorem bracketAromatic_text_is_lowered_element_text (a : BracketAromatic) :
    a.text = lowerFirst a.toElement.text := by cases a <;> decide

/-! ### non-vacuity: the hypotheses above are met by concrete values -/
example : Charge.ofInt? (-15) = some ⟨-15, by decide⟩ := rfl
example : Charge.ofInt? 0 = none := rfl
example : Charge.ofInt? 16 = none := rfl
example : Rnum.ofNat? 73 = some ⟨73, by decide⟩ := rfl
example : Number.ofString? "999".toList = some ⟨999, by decide⟩ := by decide
example : Number.ofString? "1000".toList = none := by decide
example : Number.ofString? "65535".toList = none := by decide
example : Aliphatic.ofElement? .Cs = none := rfl

end Purr.C18
