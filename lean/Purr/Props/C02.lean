/-
  C02 — Reading builds exactly the graph the string denotes.

  `reading_builds_denotation`: for EVERY string (and every history of follower calls) on which the builder
  succeeds, the adjacency list it returns IS the declarative denotation `Spec.denote` of the history
  (Purr/Spec/Denote.lean — no builder, no mutable node list, no placeholders):
    * one atom per atom token, numbered in order of appearance, with the written attributes (a non-root
      atom with a configuration and a virtual hydrogen has its `@`/`@@` mark adjusted — the convention of
      C03);
    * the bond list of an atom is read off the events in written order: the bond to the preceding atom
      (kind reversed) first, then ring-closure digits, branches and the chain successor as they appear;
    * every bond is recorded on both ends; a ring-closure digit pairs with the nearest preceding open digit
      with the same number (one left-to-right scan), and the two ends get the reconciled kinds — an elided
      side takes the kind written on the other side, a directional kind is seen reversed from the far end;
    * a dot creates no bond.
  Proof (Purr/Lemmas/DenoteL.lean): an invariant over every prefix of the history — the builder's node for
  atom `i` lists exactly the half-bonds the events so far contribute to `i`, a digit whose partner has not
  been seen yet being the placeholder for its number — preserved by each of the five kinds of step.
  The per-event theorems of stage 1 are kept below.  The reader's side (tokens are read left to right,
  each exactly once; the event stream is conformant) is C07 / C08 / C09.  The oracle's independent
  interpreter of SMILES is still compared with `Builder::build()` on every run.
-/
import Purr.Lemmas.BuilderL
import Purr.Props.C10
import Purr.Lemmas.DenoteL
namespace Purr.C02
open Purr Purr.Spec

/-- one atom per atom token, in order of appearance, with the written attributes -/
theorem atoms_in_order (es : List Event) (g : Graph) (h : build? es = some (.ok g)) :
    g.map Atom.kind = atomKinds es := by
  unfold build? at h
  cases hr : brun .init es with
  | none => rw [hr] at h; cases h
  | some s =>
    rw [hr] at h
    simp only [Option.map_some, Option.some.injEq] at h
    have hk := brun_kinds es hr
    simp only [BState.init, List.map_nil, List.nil_append] at hk
    rw [← hk]
    unfold BState.build at h
    split at h
    · cases h
    · -- buildNodes keeps the kinds
      have : ∀ (ns : List Node) (g : Graph), buildNodes ns = .ok g → g.map Atom.kind = ns.map Node.kind := by
        intro ns
        induction ns with
        | nil => intro g hg; simp [buildNodes] at hg; subst hg; rfl
        | cons n ns ih =>
          intro g hg
          simp only [buildNodes] at hg
          cases hb : nodeBonds n.edges with
          | error e => rw [hb] at hg; cases hg
          | ok bs =>
            rw [hb] at hg
            cases hr' : buildNodes ns with
            | error e => rw [hr'] at hg; simp [Except.map] at hg
            | ok g' =>
              rw [hr'] at hg
              simp [Except.map] at hg
              subst hg
              simp [ih g' hr']
      exact this _ _ h

/-- a dot creates no bond: `root` appends an atom without bonds and leaves every existing bond list alone -/
theorem root_creates_no_bond (s : BState) (k : AtomKind) :
    ∃ s', bstep s (.root k) = some s' ∧ s'.graph = s.graph ++ [⟨k, []⟩] ∧ s'.opens = s.opens ∧ s'.errors = s.errors :=
  ⟨_, rfl, rfl, rfl, rfl⟩

/-- an atom after a bond symbol (or an elided bond): recorded on both ends, the far end reversed -/
theorem extend_both_ends (g : List Node) (sid : Nat) (b : BondKind) (k : AtomKind) (hlt : sid < g.length) :
    (addEdge (g ++ [⟨k.invert, [⟨b.reverse, .id sid⟩]⟩]) sid ⟨b, .id g.length⟩)[g.length]?
      = some ⟨k.invert, [⟨b.reverse, .id sid⟩]⟩ ∧
    ((addEdge (g ++ [⟨k.invert, [⟨b.reverse, .id sid⟩]⟩]) sid ⟨b, .id g.length⟩)[sid]?).map Node.edges
      = (g[sid]?).map (fun n => n.edges ++ [⟨b, .id g.length⟩]) := by
  constructor
  · rw [getElem?_addEdge]
    have : sid ≠ g.length := by omega
    simp [this]
  · rw [getElem?_addEdge, getElem?_snoc_lt _ _ hlt]
    simp
    cases g[sid]? <;> rfl

/-- the two ends of a ring closure: an elided side takes the other side's kind (reversed when directional) -/
theorem closure_kinds (l r : BondKind) : reconcile l r = C10.reconcileSpec l r := C10.reconcile_table l r

theorem elided_takes_other_kind (k : BondKind) :
    reconcile .elided k = some (k.reverse, k) ∧ reconcile k .elided = some (k, k.reverse) := by
  cases k <;> exact ⟨rfl, rfl⟩

/-- READING BUILDS THE DENOTATION: for every string, if the builder driven by the reader succeeds, the graph is
    the declarative denotation of the events read. -/
theorem reading_builds_denotation (s : Str) (g : Graph) (h : build? (read s).1 = some (.ok g)) :
    g = denote (read s).1 := build_eq_denote _ g h

/-- … and for any history of follower calls whatsoever -/
theorem history_builds_denotation (es : List Event) (g : Graph) (h : build? es = some (.ok g)) : g = denote es :=
  build_eq_denote es g h

/-! non-vacuity and a reading of the definition (histories written out, `read` being defined by
    well-founded recursion): `C1CC1C1CC1` — a re-used ring number, two digits on one atom; `C/1(.O)CN1` — a dot
    inside a branch, the elided closing side taking the directional kind, reversed -/
def r1 : Rnum := ⟨1, by decide⟩
def exReuse : List Event :=
  [.root (.aliphatic .C), .join .elided r1, .extend .elided (.aliphatic .C), .extend .elided (.aliphatic .C), .join .elided r1,
   .extend .elided (.aliphatic .C), .join .elided r1, .extend .elided (.aliphatic .C), .extend .elided (.aliphatic .C), .join .elided r1]

example : denote exReuse =
    [⟨.aliphatic .C, [⟨.elided, 2⟩, ⟨.elided, 1⟩]⟩, ⟨.aliphatic .C, [⟨.elided, 0⟩, ⟨.elided, 2⟩]⟩,
     ⟨.aliphatic .C, [⟨.elided, 1⟩, ⟨.elided, 0⟩, ⟨.elided, 3⟩]⟩,
     ⟨.aliphatic .C, [⟨.elided, 2⟩, ⟨.elided, 5⟩, ⟨.elided, 4⟩]⟩, ⟨.aliphatic .C, [⟨.elided, 3⟩, ⟨.elided, 5⟩]⟩,
     ⟨.aliphatic .C, [⟨.elided, 4⟩, ⟨.elided, 3⟩]⟩] := by decide

def exDot : List Event :=
  [.root (.aliphatic .C), .join .up r1, .root (.aliphatic .O), .pop 1, .extend .elided (.aliphatic .C),
   .extend .elided (.aliphatic .N), .join .elided r1]

example : denote exDot =
    [⟨.aliphatic .C, [⟨.up, 3⟩, ⟨.elided, 2⟩]⟩, ⟨.aliphatic .O, []⟩, ⟨.aliphatic .C, [⟨.elided, 0⟩, ⟨.elided, 3⟩]⟩,
     ⟨.aliphatic .N, [⟨.elided, 2⟩, ⟨.down, 0⟩]⟩] := by decide

example : build? exDot = some (.ok (denote exDot)) := rfl

end Purr.C02
