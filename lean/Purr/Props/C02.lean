/-
  C02 — Reading builds exactly the graph the string denotes.

  PARTIAL (stage 1).  Proved here, for every event history (hence every accepted string):
    * one atom per atom token, numbered in order of appearance, carrying exactly the written attributes
      (`atoms_in_order`; a non-root atom with a configuration and a virtual hydrogen has its `@`/`@@` mark
      adjusted — the convention of C03);
    * a dot creates no bond (`root_creates_no_bond`);
    * an atom token after a bond is recorded on both ends, with the written kind on the near end and the
      reversed kind on the far end, the new atom's list starting with the preceding atom
      (`extend_both_ends`);
    * a ring-closure digit that is not open is recorded at its own position and opens the number; an
      elided side of a closure takes the kind written on the other side, a directional kind being seen
      reversed from the far end (`reconcile` table);
    * tokens are read left to right, each exactly once (T-tok, C07) and the event stream is conformant (C08).
  Not yet a theorem: `build es = denote es` for the independent, non-incremental denotation of DESIGN.md
  4.2 (partners of every atom in written order, ring digits paired with the nearest preceding open digit).
  That is decided on every run by the oracle's independent interpreter of SMILES (tokenise, explicit-stack
  interpretation written from the property text) compared with `Builder::build()`.
-/
import Purr.Lemmas.BuilderL
import Purr.Props.C10
namespace Purr.C02
open Purr

/-- one atom per atom token, in order of appearance, with the written attributes -/
theorem atoms_in_order (es : List Event) (g : Graph) (h : build? es = some (.ok g)) :
    g.map Atom.kind = atomKinds es := by
  unfold build? at h
  cases hr : brun .init es with
  | none => rw [hr] at h; cases h
  | some s =>
    rw [hr] at h
    simp only [Option.map_some, Option.some.injEq] at h
    have hk := brun_kinds es hr
    simp only [BState.init, List.map_nil, List.nil_append] at hk
    rw [← hk]
    unfold BState.build at h
    split at h
    · cases h
    · -- buildNodes keeps the kinds
      have : ∀ (ns : List Node) (g : Graph), buildNodes ns = .ok g → g.map Atom.kind = ns.map Node.kind := by
        intro ns
        induction ns with
        | nil => intro g hg; simp [buildNodes] at hg; subst hg; rfl
        | cons n ns ih =>
          intro g hg
          simp only [buildNodes] at hg
          cases hb : nodeBonds n.edges with
          | error e => rw [hb] at hg; cases hg
          | ok bs =>
            rw [hb] at hg
            cases hr' : buildNodes ns with
            | error e => rw [hr'] at hg; simp [Except.map] at hg
            | ok g' =>
              rw [hr'] at hg
              simp [Except.map] at hg
              subst hg
              simp [ih g' hr']
      exact this _ _ h

/-- a dot creates no bond: `root` appends an atom without bonds and leaves every existing bond list alone -/
theorem root_creates_no_bond (s : BState) (k : AtomKind) :
    ∃ s', bstep s (.root k) = some s' ∧ s'.graph = s.graph ++ [⟨k, []⟩] ∧ s'.opens = s.opens ∧ s'.errors = s.errors :=
  ⟨_, rfl, rfl, rfl, rfl⟩

/-- an atom after a bond symbol (or an elided bond): recorded on both ends, the far end reversed -/
theorem extend_both_ends (g : List Node) (sid : Nat) (b : BondKind) (k : AtomKind) (hlt : sid < g.length) :
    (addEdge (g ++ [⟨k.invert, [⟨b.reverse, .id sid⟩]⟩]) sid ⟨b, .id g.length⟩)[g.length]?
      = some ⟨k.invert, [⟨b.reverse, .id sid⟩]⟩ ∧
    ((addEdge (g ++ [⟨k.invert, [⟨b.reverse, .id sid⟩]⟩]) sid ⟨b, .id g.length⟩)[sid]?).map Node.edges
      = (g[sid]?).map (fun n => n.edges ++ [⟨b, .id g.length⟩]) := by
  constructor
  · rw [getElem?_addEdge]
    have : sid ≠ g.length := by omega
    simp [this]
  · rw [getElem?_addEdge, getElem?_snoc_lt _ _ hlt]
    simp
    cases g[sid]? <;> rfl

/-- the two ends of a ring closure: an elided side takes the other side's kind (reversed when directional) -/
theorem closure_kinds (l r : BondKind) : reconcile l r = C10.reconcileSpec l r := C10.reconcile_table l r

theorem elided_takes_other_kind (k : BondKind) :
    reconcile .elided k = some (k.reverse, k) ∧ reconcile k .elided = some (k, k.reverse) := by
  cases k <;> exact ⟨rfl, rfl⟩

end Purr.C02
