/-
  C05 — Syntax errors point at the first offending character.

  The verdict `fail at_` stands for `EndOfLine` when `at_ = []` and for `Character(|s| − |at_|)` otherwise.

  `character_is_first_offending`: for EVERY refused string, if the reader reports `Character(i)` then `i` lies
  inside the string, the first `i` characters can be extended to a string the reader accepts, and no string
  that begins with the first `i + 1` characters is accepted.  `end_of_line_is_viable_incomplete`: `EndOfLine`
  is reported exactly when the whole input can be extended to an accepted string but is not accepted itself.
  Proof: the reader's verdict and cursor coincide with those of the documented grammar automaton
  (`read_eq_classify`, Purr/Lemmas/GrammarEqL.lean, see C04), and for the automaton the error position is
  the first character without a move while every reachable configuration has an explicit completion
  (Purr/Lemmas/AutomatonL.lean).  Cursors count characters (the model's strings are lists of characters, as
  the scanner of src/read/scanner.rs counts `char`s), so multi-byte characters shift nothing.
  The real reader's verdict and cursor are additionally compared with the automaton on every run (field G).
-/
import Purr.Lemmas.ShapeL
import Purr.Lemmas.AutomatonL
import Purr.Lemmas.GrammarEqL
import Purr.Lemmas.ReaderL
import Purr.Lemmas.BnfL
namespace Purr.C05
open Purr

/-- the cursor the Rust error carries: `none` = `EndOfLine`, `some i` = `Character(i)` -/
def cursorOf (s at_ : Str) : Option Nat := if at_ = [] then none else some (s.length - at_.length)

theorem fail_is_suffix (s a : Str) (h : (read s).2 = .fail a) : Suffix a s :=
  run_fail_suffix .needRoot [0] s a h

/-- a `Character(i)` error points at a character of the input: `i < |s|`, and the input from `i` on is
    exactly the remainder the reader stopped at -/
theorem character_in_range (s a : Str) (i : Nat) (h : (read s).2 = .fail a) (hc : cursorOf s a = some i) :
    i < s.length ∧ s.drop i = a := by
  obtain ⟨p, rfl⟩ := fail_is_suffix s a h
  unfold cursorOf at hc
  split at hc
  · cases hc
  · rename_i hne
    cases hc
    have : 0 < a.length := List.length_pos_iff.mpr hne
    constructor
    · simp; omega
    · simp

/-- `EndOfLine` is reported exactly when the reader stopped at the end of the input -/
theorem eol_iff_at_end (s a : Str) (_ : (read s).2 = .fail a) : cursorOf s a = none ↔ a = [] := by
  unfold cursorOf; split <;> simp_all

/-- reading never reports a position past the end, for any follower: the verdict is a function of the
    string alone (followers cannot influence the reader — `Follower` methods return `()`) -/
theorem verdict_total (s : Str) : (read s).2 = .ok ∨ (∃ a, (read s).2 = .fail a ∧ Suffix a s) := by
  cases h : (read s).2 with
  | ok => exact Or.inl rfl
  | fail a => exact Or.inr ⟨a, rfl, fail_is_suffix s a h⟩
  | panic p => exact absurd h (run_no_panic _ _ _ p)

theorem read_ok_iff (s : Str) : (read s).2 = .ok ↔ Spec.classify s = .ok := by
  have h := read_eq_classify s
  constructor
  · intro hok; rw [hok] at h; exact h.symm
  · intro hc
    rw [hc] at h
    cases hv : (read s).2 with
    | ok => rfl
    | fail a => rw [hv] at h; exact absurd h (toSpec_fail_ne_ok _ _)
    | panic p => exact absurd hv (run_no_panic .needRoot [0] s p)

/-- A `Character(i)` ERROR POINTS AT THE FIRST OFFENDING CHARACTER: everything before it is a prefix of some accepted
    string, and the prefix including it is a prefix of none. -/
theorem character_is_first_offending (s a : Str) (c : Char) (r : Str) (h : (read s).2 = .fail a) (ha : a = c :: r) :
    s.length - a.length < s.length ∧
    (∃ z, (read (s.take (s.length - a.length) ++ z)).2 = .ok) ∧
    (∀ z, (read (s.take (s.length - a.length + 1) ++ z)).2 ≠ .ok) := by
  have heq := read_eq_classify s
  rw [h] at heq
  have hcl : Spec.classify s = .character (s.length - a.length) := by
    rw [← heq]; subst ha; simp [toSpec, failV]
  obtain ⟨h1, ⟨z, hz⟩, h3⟩ := Spec.character_is_first_offending s _ hcl
  exact ⟨h1, ⟨z, (read_ok_iff _).mpr hz⟩, fun z' hok => h3 z' ((read_ok_iff _).mp hok)⟩

/-- `EndOfLine` is reported exactly when the whole input is a viable prefix but is incomplete -/
theorem end_of_line_is_viable_incomplete (s : Str) (h : (read s).2 = .fail []) :
    (read s).2 ≠ .ok ∧ ∃ z, (read (s ++ z)).2 = .ok := by
  have heq := read_eq_classify s
  rw [h] at heq
  have hcl : Spec.classify s = .endOfLine := by rw [← heq]; rfl
  obtain ⟨_, z, hz⟩ := Spec.endOfLine_is_viable_incomplete s hcl
  exact ⟨by rw [h]; simp, z, (read_ok_iff _).mpr hz⟩

/-- END OF LINE EXACTLY WHEN VIABLE BUT INCOMPLETE: the reader reports `EndOfLine` if and only if the input is refused
    and can be extended to an accepted string -/
theorem end_of_line_iff (s : Str) :
    (read s).2 = .fail [] ↔ ((read s).2 ≠ .ok ∧ ∃ z, (read (s ++ z)).2 = .ok) := by
  constructor
  · exact end_of_line_is_viable_incomplete s
  · rintro ⟨hno, z, hz⟩
    cases hv : (read s).2 with
    | ok => exact absurd hv hno
    | panic p => exact absurd hv (run_no_panic _ _ _ p)
    | fail a =>
      cases a with
      | nil => rfl
      | cons c r =>
        exfalso
        obtain ⟨_, _, hall⟩ := character_is_first_offending s (c :: r) c r hv rfl
        obtain ⟨p, hp⟩ := fail_is_suffix s (c :: r) hv
        have hlen : s.length - (c :: r).length = p.length := by rw [hp]; simp
        have htake : s.take (p.length + 1) = p ++ [c] := by
          rw [hp]
          have : p ++ c :: r = (p ++ [c]) ++ r := by simp
          rw [this, List.take_left' (by simp)]
        rw [hlen, htake] at hall
        apply hall (r ++ z)
        have : p ++ [c] ++ (r ++ z) = s ++ z := by rw [hp]; simp
        rw [this]; exact hz

/-! the same clauses with "valid SMILES" read as "has a derivation in the documented productions" (C04
    `accepts_iff_productions`, Purr/Spec/Bnf.lean) -/

theorem character_is_first_offending_productions (s a : Str) (c : Char) (r : Str) (h : (read s).2 = .fail a) (ha : a = c :: r) :
    s.length - a.length < s.length ∧
    (∃ z, Spec.Bnf.Sentence (s.take (s.length - a.length) ++ z)) ∧
    (∀ z, ¬ Spec.Bnf.Sentence (s.take (s.length - a.length + 1) ++ z)) := by
  obtain ⟨h1, ⟨z, hz⟩, h3⟩ := character_is_first_offending s a c r h ha
  exact ⟨h1, ⟨z, accepted_sentence hz⟩, fun z hs => h3 z (sentence_accepted hs)⟩

theorem end_of_line_iff_productions (s : Str) :
    (read s).2 = .fail [] ↔ (¬ Spec.Bnf.Sentence s ∧ ∃ z, Spec.Bnf.Sentence (s ++ z)) := by
  rw [end_of_line_iff]
  constructor
  · rintro ⟨h1, z, hz⟩; exact ⟨fun hs => h1 (sentence_accepted hs), z, accepted_sentence hz⟩
  · rintro ⟨h1, z, hz⟩; exact ⟨fun hok => h1 (accepted_sentence hok), z, sentence_accepted hz⟩

/-- the documented grammar's error position is the first character that cannot continue any sentence -/
theorem grammar_cursor_first_offending (s : Str) (i : Nat) (h : Spec.classify s = .character i) :
    i < s.length ∧ (∃ z, Spec.classify (s.take i ++ z) = .ok) ∧ (∀ z, Spec.classify (s.take (i + 1) ++ z) ≠ .ok) :=
  Spec.character_is_first_offending s i h

/-- … and its `EndOfLine` means: viable prefix, but incomplete -/
theorem grammar_eol_viable_incomplete (s : Str) (h : Spec.classify s = .endOfLine) :
    Spec.classify s ≠ .ok ∧ ∃ z, Spec.classify (s ++ z) = .ok :=
  Spec.endOfLine_is_viable_incomplete s h

/-! non-vacuity -/
example : Spec.classify "[C@TBx]".toList = .character 5 := by decide +kernel
example : Spec.classify ("[C@TB".toList ++ Spec.completion ⟨.atTB, 0⟩) = .ok := by decide +kernel

end Purr.C05
