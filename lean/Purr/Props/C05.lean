/-
  C05 — Syntax errors point at the first offending character.

  The verdict `fail at_` stands for `EndOfLine` when `at_ = []` and for `Character(|s| − |at_|)`
  otherwise.  PARTIAL: proved here — the reported position always lies inside the input (the failing
  remainder is a suffix of the input), `EndOfLine` is reported exactly when the reader stopped at the end
  of the input, and `Character(i)` always has `i < |s|`.  Not yet theorems: "everything before the cursor
  is a viable prefix and the prefix including it is not" (needs the truncation / extension / completion
  lemmas of DESIGN.md 4.5); that part is decided on every run by the brute-force viability oracle and
  the exhaustive one-character-corruption correspondence.
-/
import Purr.Lemmas.ShapeL
namespace Purr.C05
open Purr

/-- the cursor the Rust error carries: `none` = `EndOfLine`, `some i` = `Character(i)` -/
def cursorOf (s at_ : Str) : Option Nat := if at_ = [] then none else some (s.length - at_.length)

theorem fail_is_suffix (s a : Str) (h : (read s).2 = .fail a) : Suffix a s :=
  run_fail_suffix .needRoot [0] s a h

/-- a `Character(i)` error points at a character of the input: `i < |s|`, and the input from `i` on is
    exactly the remainder the reader stopped at -/
theorem character_in_range (s a : Str) (i : Nat) (h : (read s).2 = .fail a) (hc : cursorOf s a = some i) :
    i < s.length ∧ s.drop i = a := by
  obtain ⟨p, rfl⟩ := fail_is_suffix s a h
  unfold cursorOf at hc
  split at hc
  · cases hc
  · rename_i hne
    cases hc
    have : 0 < a.length := List.length_pos_iff.mpr hne
    constructor
    · simp; omega
    · simp

/-- `EndOfLine` is reported exactly when the reader stopped at the end of the input -/
theorem eol_iff_at_end (s a : Str) (_ : (read s).2 = .fail a) : cursorOf s a = none ↔ a = [] := by
  unfold cursorOf; split <;> simp_all

/-- reading never reports a position past the end, for any follower: the verdict is a function of the
    string alone (followers cannot influence the reader — `Follower` methods return `()`) -/
theorem verdict_total (s : Str) : (read s).2 = .ok ∨ (∃ a, (read s).2 = .fail a ∧ Suffix a s) := by
  cases h : (read s).2 with
  | ok => exact Or.inl rfl
  | fail a => exact Or.inr ⟨a, rfl, fail_is_suffix s a h⟩
  | panic p => exact absurd h (run_no_panic _ _ _ p)

end Purr.C05
