/-
  C05 — Syntax errors point at the first offending character.

  The verdict `fail at_` stands for `EndOfLine` when `at_ = []` and for `Character(|s| − |at_|)`
  otherwise.  PARTIAL.  Proved about the reader: the reported position always lies inside the input (the
  failing remainder is a suffix of the input), `EndOfLine` is reported exactly when the reader stopped at
  the end of the input, and `Character(i)` always has `i < |s|`.
  Proved about the documented grammar `Spec.classify` (Purr/Spec/Automaton.lean, Lemmas/AutomatonL.lean):
  its verdict `Character(i)` is exactly the first offending character — the first `i` characters can be
  completed to a sentence and the first `i + 1` cannot, whatever follows (`grammar_cursor_first_offending`;
  every reachable configuration of the automaton has an explicit completion) — and `EndOfLine` is given
  exactly to viable but incomplete inputs (`grammar_eol_viable_incomplete`).
  Not yet a theorem: that the reader's verdict and cursor coincide with `Spec.classify` for every string;
  that is decided on every run (field G of the S-read / S-atom suites: the real reader against `Spec.classify`
  executed by the Lean driver, on all strings up to a length bound, every token family with its
  one-character corruptions incl. multi-byte characters) and by the harness's brute-force viability oracle.
-/
import Purr.Lemmas.ShapeL
import Purr.Lemmas.AutomatonL
namespace Purr.C05
open Purr

/-- the cursor the Rust error carries: `none` = `EndOfLine`, `some i` = `Character(i)` -/
def cursorOf (s at_ : Str) : Option Nat := if at_ = [] then none else some (s.length - at_.length)

theorem fail_is_suffix (s a : Str) (h : (read s).2 = .fail a) : Suffix a s :=
  run_fail_suffix .needRoot [0] s a h

/-- a `Character(i)` error points at a character of the input: `i < |s|`, and the input from `i` on is
    exactly the remainder the reader stopped at -/
theorem character_in_range (s a : Str) (i : Nat) (h : (read s).2 = .fail a) (hc : cursorOf s a = some i) :
    i < s.length ∧ s.drop i = a := by
  obtain ⟨p, rfl⟩ := fail_is_suffix s a h
  unfold cursorOf at hc
  split at hc
  · cases hc
  · rename_i hne
    cases hc
    have : 0 < a.length := List.length_pos_iff.mpr hne
    constructor
    · simp; omega
    · simp

/-- `EndOfLine` is reported exactly when the reader stopped at the end of the input -/
theorem eol_iff_at_end (s a : Str) (_ : (read s).2 = .fail a) : cursorOf s a = none ↔ a = [] := by
  unfold cursorOf; split <;> simp_all

/-- reading never reports a position past the end, for any follower: the verdict is a function of the
    string alone (followers cannot influence the reader — `Follower` methods return `()`) -/
theorem verdict_total (s : Str) : (read s).2 = .ok ∨ (∃ a, (read s).2 = .fail a ∧ Suffix a s) := by
  cases h : (read s).2 with
  | ok => exact Or.inl rfl
  | fail a => exact Or.inr ⟨a, rfl, fail_is_suffix s a h⟩
  | panic p => exact absurd h (run_no_panic _ _ _ p)

/-- the documented grammar's error position is the first character that cannot continue any sentence -/
theorem grammar_cursor_first_offending (s : Str) (i : Nat) (h : Spec.classify s = .character i) :
    i < s.length ∧ (∃ z, Spec.classify (s.take i ++ z) = .ok) ∧ (∀ z, Spec.classify (s.take (i + 1) ++ z) ≠ .ok) :=
  Spec.character_is_first_offending s i h

/-- … and its `EndOfLine` means: viable prefix, but incomplete -/
theorem grammar_eol_viable_incomplete (s : Str) (h : Spec.classify s = .endOfLine) :
    Spec.classify s ≠ .ok ∧ ∃ z, Spec.classify (s ++ z) = .ok :=
  Spec.endOfLine_is_viable_incomplete s h

/-! non-vacuity -/
example : Spec.classify "[C@TBx]".toList = .character 5 := by decide +kernel
example : Spec.classify ("[C@TB".toList ++ Spec.completion ⟨.atTB, 0⟩) = .ok := by decide +kernel

end Purr.C05
