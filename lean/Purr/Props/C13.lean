/-
  C13 — Ring-closure numbers are recycled and never run out early.

  Statements about `JoinPool` (model: Purr/Model/Pool.lean), for every sequence of hits, i.e. every
  reachable interleaving of ring openings and closings.  The traversal obtains every ring number
  from `Pool.hit` in emission order (Purr/Model/Walk.lean, `wkStep`), so these are the numbers written.
-/
import Purr.Lemmas.PoolL
import Purr.Lemmas.PoolWalkL
namespace Purr.C13
open Purr

/-- the pool after a sequence of hits -/
def after (hs : List (Nat × Nat)) : Pool := hs.foldl (fun p ab => (p.hitNat ab).2) .init

/-- the invariant holds in every reachable state -/
theorem pool_inv (hs : List (Nat × Nat)) : (after hs).Inv := by
  unfold after
  suffices ∀ p : Pool, p.Inv → (hs.foldl (fun p ab => (p.hitNat ab).2) p).Inv from this _ Pool.inv_init
  induction hs with
  | nil => intro p hp; exact hp
  | cons ab hs ih => intro p hp; exact ih _ (inv_hit hp ab)

/-- a ring closure is opened with the smallest number from 1 upward that is not currently open -/
theorem hit_open (hs : List (Nat × Nat)) (ab : Nat × Nat) (h : (after hs).find ab = none) :
    let n := ((after hs).hitNat ab).1
    1 ≤ n ∧ n ∉ (after hs).opens ∧ ∀ m, 1 ≤ m → m < n → m ∈ (after hs).opens := by
  have := hit_open_spec (pool_inv hs) h
  exact ⟨this.1, this.2.1, this.2.2.1⟩

/-- both ends of a closure carry the same number, and it becomes available again at once -/
theorem hit_close (hs : List (Nat × Nat)) (ab : Nat × Nat) (n : Nat) (h : (after hs).find ab = some n) :
    ((after hs).hitNat ab).1 = n ∧ n ∉ ((after hs).hitNat ab).2.opens ∧
    (∀ m, m ∈ ((after hs).hitNat ab).2.opens ↔ (m ∈ (after hs).opens ∧ m ≠ n)) := by
  have hm := mem_opens_filter (pool_inv hs) h
  simp only [Pool.hitNat, h]
  refine ⟨trivial, ?_, ?_⟩
  · intro hn; exact ((hm n).mp hn).2 rfl
  · intro m; exact hm m

/-- opening records the pair under the number handed out (so the later hit from the other end finds it) -/
theorem hit_open_records (p : Pool) (ab : Nat × Nat) (h : p.find ab = none) :
    (p.hitNat ab).2.find ab = some (p.hitNat ab).1 ∧ (p.hitNat ab).2.find (ab.2, ab.1) = some (p.hitNat ab).1 := by
  simp only [Pool.hitNat, h]
  cases minOf p.replaced <;> simp [Pool.find, pairEq]

theorem count_le_length : ∀ (n : Nat) (l : List Nat), (∀ m, 1 ≤ m → m < n → m ∈ l) → n - 1 ≤ l.length
  | 0, _, _ => by omega
  | 1, _, _ => by omega
  | n + 2, l, h => by
    have hmem : n + 1 ∈ l := h (n + 1) (by omega) (by omega)
    have ih := count_le_length (n + 1) (l.erase (n + 1)) (by
      intro m h1 h2
      exact (List.mem_erase_of_ne (by omega)).mpr (h m h1 (by omega)))
    have := List.length_erase_of_mem hmem
    have : 0 < l.length := List.length_pos_of_mem hmem
    omega

/-- an opening hit hands out a number that does not exceed the number of closures open at that moment plus one -/
theorem open_le_open_succ (p : Pool) (hi : p.Inv) (ab : Nat × Nat) (hf : p.find ab = none) :
    (p.hitNat ab).1 ≤ p.opens.length + 1 := by
  obtain ⟨_, _, hall, _⟩ := hit_open_spec hi hf
  have := count_le_length _ _ hall
  omega

/-- one step: while at most 99 closures are open afterwards, the number fits 1‥99 and so do all open numbers -/
theorem hit_step_bound (p : Pool) (hi : p.Inv) (hb : ∀ n ∈ p.opens, n ≤ 99) (ab : Nat × Nat)
    (hlen : (p.hitNat ab).2.opens.length ≤ 99) :
    1 ≤ (p.hitNat ab).1 ∧ (p.hitNat ab).1 ≤ 99 ∧ ∀ n ∈ (p.hitNat ab).2.opens, n ≤ 99 := by
  cases hf : p.find ab with
  | none =>
    have hspec := hit_open_spec hi hf
    have hle := open_le_open_succ p hi ab hf
    have hopens : (p.hitNat ab).2.opens = (p.hitNat ab).1 :: p.opens := by
      simp only [Pool.hitNat, hf]; cases minOf p.replaced <;> rfl
    rw [hopens] at hlen ⊢
    simp only [List.length_cons] at hlen
    refine ⟨hspec.1, by omega, ?_⟩
    intro n hn
    cases hn with
    | head => omega
    | tail _ h => exact hb n h
  | some n =>
    have hn : n ∈ p.opens := by
      obtain ⟨e, he, _, hen⟩ := find_some hf
      exact List.mem_map.mpr ⟨e, he, hen⟩
    have hm := mem_opens_filter hi hf
    have hres : (p.hitNat ab).1 = n := by simp [Pool.hitNat, hf]
    have hopens : (p.hitNat ab).2.opens = (p.borrowed.filter (fun e => !pairEq e.1 ab)).map (·.2) := by
      simp [Pool.hitNat, hf, Pool.opens]
    rw [hres, hopens]
    refine ⟨(hi.bndOpen n hn).1, hb n hn, ?_⟩
    intro m hmm
    exact hb m ((hm m).mp hmm).1

/-- "no more than 99 closures are open at the same time" along a sequence of hits -/
def Within99 : Pool → List (Nat × Nat) → Prop
  | _, [] => True
  | p, ab :: hs => (p.hitNat ab).2.opens.length ≤ 99 ∧ Within99 (p.hitNat ab).2 hs

/-- the numbers handed out along a sequence of hits -/
def results : Pool → List (Nat × Nat) → List Nat
  | _, [] => []
  | p, ab :: hs => (p.hitNat ab).1 :: results (p.hitNat ab).2 hs

theorem results_bound : ∀ (hs : List (Nat × Nat)) (p : Pool), p.Inv → (∀ n ∈ p.opens, n ≤ 99) → Within99 p hs →
    ∀ n ∈ results p hs, 1 ≤ n ∧ n ≤ 99
  | [], _, _, _, _, n, hn => by cases hn
  | ab :: hs, p, hi, hb, hw, n, hn => by
    obtain ⟨h1, h2, h3⟩ := hit_step_bound p hi hb ab hw.1
    simp only [results, List.mem_cons] at hn
    rcases hn with rfl | hn
    · exact ⟨h1, h2⟩
    · exact results_bound hs _ (inv_hit hi ab) h3 hw.2 n hn

/-- Writing never runs out of ring numbers early: for any total number of rings, as long as no more
    than 99 closures are open at the same time every number handed out is in 1‥99, i.e. converts to an
    `Rnum` (`Pool.hit` does not reach its `expect("rnum")`). -/
theorem no_early_exhaustion (hs : List (Nat × Nat)) (h : Within99 .init hs) :
    ∀ n ∈ results .init hs, 1 ≤ n ∧ n ≤ 99 :=
  results_bound hs .init Pool.inv_init (by simp [Pool.init, Pool.opens]) h

theorem hit_ok_of_le_99 (p : Pool) (ab : Nat × Nat) (h : (p.hitNat ab).1 ≤ 99) :
    ∃ r, p.hit ab = .ok r (p.hitNat ab).2 ∧ r.val = (p.hitNat ab).1 := by
  unfold Pool.hit
  have : (p.hitNat ab).1 < 100 := by omega
  simp [Rnum.ofNat?, this]

/-! non-vacuity and the former defect D13 (a leak made the fourth number 3) -/
example : results .init [(0, 1), (1, 0), (2, 3), (4, 5)] = [1, 1, 1, 2] := by decide
example : Within99 .init [(0, 1), (1, 0), (2, 3), (4, 5)] := by
  simp only [Within99]; decide

/-- NEVER OUT OF NUMBERS EARLY, for a whole traversal: `walk` gives up for lack of a ring number only when at least
    99 ring closures are open in what it has already handed to the follower (`openAfter`: a ring-closure event
    opens its number if it is not open and closes it otherwise).  Together with C06 `walk_only_panics_on_rnum`
    and C11: on a well-formed adjacency list writing succeeds unless 99 closures are open at once. -/
theorem walk_never_out_early (g : Graph) (evs : List Event) (h : walk g = (evs, .panic "join_pool.rs:rnum")) :
    99 ≤ (openAfter [] evs).length := walk_pool_exhausted_late g evs h

/-- RECYCLED, SMALLEST FIRST, for a whole traversal: along the events `walk` hands to the follower for ANY adjacency list
    (whatever its verdict), every ring-closure event whose number is not open at that point (an opening) carries the
    smallest number from 1 upward that is not open in what has been handed over so far; a number that is open is
    closed by its next occurrence and is free again at once (`toggle`).  `LeastOpens l evs` is that statement for the
    events `evs` starting from the open numbers `l`. -/
theorem walk_opens_with_least_number (g : Graph) : LeastOpens [] (walk g).1 := walk_opens_least g

/-! the predicate is not trivially true: handing out 2 while 1 is free violates it, reusing 1 satisfies it -/
example : ¬ LeastOpens [] [.join .elided ⟨2, by decide⟩] := by
  simp only [LeastOpens]; intro h
  have := (h.1 (by decide)).2 1 (by decide) (by decide)
  cases this
example : LeastOpens [] [.join .elided ⟨1, by decide⟩, .join .elided ⟨1, by decide⟩, .join .elided ⟨1, by decide⟩] := by
  simp only [LeastOpens, toggle]
  refine ⟨fun _ => ⟨by decide, fun m h1 h2 => by omega⟩, ?_, ?_, trivial⟩
  · intro h; exact absurd (by decide) h
  · intro _; exact ⟨by decide, fun m h1 h2 => by omega⟩

end Purr.C13
