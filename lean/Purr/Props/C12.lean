/-
  C12 — Writing preserves every atom's substituent order.

  Stage 3, `substituent_order`: for EVERY well-formed adjacency list (rings included) on which the traversal
  succeeds (it fails only by running out of ring numbers, D17), after the complete round trip walk → write →
  read → build every atom's re-read bond list is its original bond list in the original order, renumbered
  (injectively) by visit position, with only the bond it was entered through moved to the front (component
  roots: unchanged); ring-closure bonds and branches stay interleaved as listed.  Proof: the simulation of
  Purr/Lemmas/RtcRing.lean (see C01).  `substituent_order_walk` states it about `walk` itself (Purr/Lemmas/LoopRecL.lean: loop = recursion).

  Stage 1, proved for every atom and bond list: when the traversal reaches an atom it
  schedules that atom's other bonds in exactly the order of its bond list (so children are visited and
  ring digits written in list order, interleaved as listed), the only bond taken out is the one it
  arrived through, and the builder puts the arrival bond first when the text is read back; components
  are started in increasing id order over the atoms not yet visited.
-/
import Purr.Lemmas.OrderL
import Purr.Lemmas.DfsL
import Purr.Lemmas.DenoteFirstL
import Purr.Lemmas.StereoL
import Purr.Lemmas.BuilderL
import Purr.Props.C01
namespace Purr.C12
open Purr Purr.Spec

/-- STAGE 3.  SUBSTITUENT ORDER THROUGH THE WHOLE ROUND TRIP, for every well-formed adjacency list (rings
    included): every atom's re-read bond list is its original list, renumbered by visit position, with only
    the bond it was entered through moved to the front; ring-closure bonds stay at their listed position. -/
theorem substituent_order (g : Graph) (hw : WellFormed g) (es : List (Event × Nat)) (ord : List Nat)
    (h : walkRecL g = some (es, ord)) (hne : es ≠ []) :
    ∃ t g', write? (es.map (·.1)) = some t ∧ (read t).2 = .ok ∧ build? (read t).1 = some (.ok g') ∧
      ∀ x atomX, g[x]? = some atomX → ∃ atom', g'[pos ord x]? = some atom' ∧
        (atom'.bonds = atomX.bonds.map (fun b => ⟨b.kind, pos ord b.tid⟩) ∨
         ∃ pre back post, atomX.bonds = pre ++ back :: post ∧ (∀ o ∈ pre, o.tid ≠ back.tid) ∧
           (∀ o ∈ post, o.tid ≠ back.tid) ∧
           atom'.bonds = (back :: (pre ++ post)).map (fun b => ⟨b.kind, pos ord b.tid⟩)) := by
  obtain ⟨t, g1, hw', hok, hb, hrel, hnd, hcov⟩ := C01.roundtrip_relabelled g hw es ord h hne
  refine ⟨t, g1.map normAtom, hw', hok, hb, ?_⟩
  intro x atomX hgx
  have hx : x ∈ ord := (hcov x).mp (by
    apply Nat.lt_of_not_le; intro hge
    rw [List.getElem?_eq_none_iff.mpr hge] at hgx; cases hgx)
  obtain ⟨atomX', hgx', hd⟩ := hrel.detail x hx
  rw [hgx] at hgx'; cases hgx'
  rcases hd with hd | ⟨q, pre, back, post, _, h1, h2, h3, h4, hd⟩
  · exact ⟨_, by rw [List.getElem?_map, hd]; rfl, Or.inl rfl⟩
  · subst h2
    exact ⟨_, by rw [List.getElem?_map, hd]; rfl, Or.inr ⟨pre, back, post, h1, h3, h4, rfl⟩⟩

/-- THE FIRST SENTENCE OF THE PROPERTY, ABOUT THE WRITTEN TEXT ITSELF (no builder in the statement): what the written
    text DENOTES — `Spec.denote`, the bond lists read off the text in written order: preceding atom, then ring-closure
    digits, branches and chain successor as they appear (C02) — is, at every atom, the original bond list in the original
    order, renumbered by visit position, with only the arrival bond moved to the front.  So in the written output each
    atom's substituents appear in exactly the order of its bond list, ring digits and branches interleaved as listed. -/
theorem written_order (g : Graph) (hw : WellFormed g) (es : List (Event × Nat)) (ord : List Nat)
    (h : walkRecL g = some (es, ord)) (hne : es ≠ []) :
    ∃ t, write? (es.map (·.1)) = some t ∧ (read t).2 = .ok ∧
      ∀ x atomX, g[x]? = some atomX → ∃ atom', (Spec.denote (read t).1)[pos ord x]? = some atom' ∧
        (atom'.bonds = atomX.bonds.map (fun b => ⟨b.kind, pos ord b.tid⟩) ∨
         ∃ pre back post, atomX.bonds = pre ++ back :: post ∧ (∀ o ∈ pre, o.tid ≠ back.tid) ∧
           (∀ o ∈ post, o.tid ≠ back.tid) ∧
           atom'.bonds = (back :: (pre ++ post)).map (fun b => ⟨b.kind, pos ord b.tid⟩)) := by
  obtain ⟨t, g', h1, h2, h3, h4⟩ := substituent_order g hw es ord h hne
  have hd : g' = Spec.denote (read t).1 := build_eq_denote _ g' h3
  exact ⟨t, h1, h2, by rw [← hd]; exact h4⟩

/-- THE BOND WRITTEN FIRST IS THE ARRIVAL BOND (no builder in the statement).  In the written text, take any atom that is
    not the first of its component — the annotation of the text's own events (`Spec.annotate`) shows it created by an
    `extend` written while atom `hd` was the head, i.e. the text attaches it to `hd`: the traversal arrived from there.
    Then the original bond list of that atom splits as `pre ++ back :: post` where `back` is its one bond to the atom
    written as `hd`, and what the text denotes is `back` first, then `pre ++ post` in the original order. -/
theorem arrival_bond_is_the_attachment (g : Graph) (hw : WellFormed g) (es : List (Event × Nat)) (ord : List Nat)
    (h : walkRecL g = some (es, ord)) (hne : es ≠ []) :
    ∃ t, write? (es.map (·.1)) = some t ∧ (read t).2 = .ok ∧
      ∀ x atomX, g[x]? = some atomX → ∀ (j : Nat) (b : BondKind) (k : AtomKind) (hd : Nat),
        (Spec.annotate [] 0 (read t).1)[j]? = some (⟨.extend b k, some hd, pos ord x⟩ : Spec.Ann) →
        ∃ atom' pre back post, (Spec.denote (read t).1)[pos ord x]? = some atom' ∧ atomX.bonds = pre ++ back :: post ∧
          pos ord back.tid = hd ∧ (∀ o ∈ pre, o.tid ≠ back.tid) ∧ (∀ o ∈ post, o.tid ≠ back.tid) ∧
          atom'.bonds = (back :: (pre ++ post)).map (fun b => ⟨b.kind, pos ord b.tid⟩) := by
  obtain ⟨t, h1, h2, h3⟩ := written_order g hw es ord h hne
  refine ⟨t, h1, h2, ?_⟩
  intro x atomX hgx j b k hd hA
  obtain ⟨atom', hd', hshape⟩ := h3 x atomX hgx
  have hfirst := denote_first_bond (read t).1 j b k hd (pos ord x) hA atom' hd'
  rcases hshape with hsame | ⟨pre, back, post, hsplit, hpre, hpost, hmoved⟩
  · cases hbs : atomX.bonds with
    | nil => rw [hsame, hbs] at hfirst; cases hfirst
    | cons b0 rest =>
      rw [hsame, hbs] at hfirst
      simp only [List.map_cons, List.head?_cons, Option.some.injEq, Bond.mk.injEq] at hfirst
      have huniq : ∀ o ∈ rest, o.tid ≠ b0.tid := by
        obtain ⟨_, hone, _⟩ := hw x atomX hgx b0 (by rw [hbs]; simp)
        rw [hbs] at hone
        unfold bondsTo at hone
        rw [List.filter_cons] at hone
        simp only [beq_self_eq_true, if_true, List.length_cons] at hone
        intro o ho heq
        have : o ∈ rest.filter (fun b => b.tid == b0.tid) := List.mem_filter.mpr ⟨ho, by simp [heq]⟩
        have hlen : (rest.filter (fun b => b.tid == b0.tid)).length = 0 := by omega
        rw [List.length_eq_zero_iff] at hlen
        rw [hlen] at this; cases this
      exact ⟨atom', [], b0, rest, hd', by simp, hfirst.2, by simp, huniq, by rw [hsame, hbs]; simp⟩
  · rw [hmoved] at hfirst
    simp only [List.map_cons, List.head?_cons, Option.some.injEq, Bond.mk.injEq] at hfirst
    exact ⟨atom', pre, back, post, hd', hsplit, hfirst.2, hpre, hpost, hmoved⟩

/-- non-vacuity of `arrival_bond_is_the_attachment`: for the two-atom graph `0 – 1` the premise about the written text is
    met by atom 1 (attached to head 0), and the theorem yields its bond list with the bond to atom 0 first -/
example : ∃ (atom' : Atom) (pre : List Bond) (back : Bond) (post : List Bond), [⟨AtomKind.aliphatic .C, [⟨BondKind.elided, 1⟩]⟩, ⟨AtomKind.aliphatic .C, [⟨BondKind.elided, 0⟩]⟩][1]? = some (⟨AtomKind.aliphatic .C, pre ++ back :: post⟩ : Atom) ∧
    back.tid = 0 ∧ atom'.bonds = (back :: (pre ++ post)).map (fun b => (⟨b.kind, pos [0, 1] b.tid⟩ : Bond)) := by
  let g : Graph := [⟨.aliphatic .C, [⟨.elided, 1⟩]⟩, ⟨.aliphatic .C, [⟨.elided, 0⟩]⟩]
  have hwalk : walkRecL g = some ([(.root (.aliphatic .C), 0), (.extend .elided (.aliphatic .C), 1)], [0, 1]) := by decide
  have hw : WellFormed g := (C11.validate_iff_wellformed g).mp (by decide)
  obtain ⟨t, hwr, _, hall⟩ := arrival_bond_is_the_attachment g hw _ _ hwalk (by simp)
  obtain ⟨t', hwr', hrd⟩ := C09.read_write [.root (.aliphatic .C), .extend .elided (.aliphatic .C)] ⟨2, rfl⟩
  have htt : t = t' := by
    have : write? (List.map (fun x => x.1) [((Event.root (.aliphatic .C), 0) : Event × Nat), (.extend .elided (.aliphatic .C), 1)]) = some t' := hwr'
    rw [hwr] at this; exact Option.some.inj this
  subst htt
  obtain ⟨atom', pre, back, post, _, hsplit, hpos, _, _, hb⟩ :=
    hall 1 ⟨.aliphatic .C, [⟨.elided, 0⟩]⟩ rfl 1 .elided (.aliphatic .C) 0 (by rw [hrd]; rfl)
  refine ⟨atom', pre, back, post, by simp only at hsplit; rw [← hsplit]; rfl, ?_, hb⟩
  -- `pos [0, 1] back.tid = 0` and `back` is the only bond, to atom 0
  cases pre with
  | nil => simp at hsplit; rw [← hsplit.1]
  | cons p ps => simp at hsplit

/-- STAGE 2 (subsumed by stage 3): the forest case -/
theorem substituent_order_forest (g : Graph) (hw : WellFormed g) (es : List (Event × Nat)) (ord : List Nat)
    (h : walkRecL g = some (es, ord)) (_hj : ∀ e ∈ es, isJoin e = false) (hne : es ≠ []) :
    ∃ t g', write? (es.map (·.1)) = some t ∧ (read t).2 = .ok ∧ build? (read t).1 = some (.ok g') ∧
      ∀ x atomX, g[x]? = some atomX → ∃ atom', g'[pos ord x]? = some atom' ∧
        (atom'.bonds = atomX.bonds.map (fun b => ⟨b.kind, pos ord b.tid⟩) ∨
         ∃ pre back post, atomX.bonds = pre ++ back :: post ∧ (∀ o ∈ pre, o.tid ≠ back.tid) ∧
           (∀ o ∈ post, o.tid ≠ back.tid) ∧
           atom'.bonds = (back :: (pre ++ post)).map (fun b => ⟨b.kind, pos ord b.tid⟩)) :=
  substituent_order g hw es ord h hne

/-- distinct atoms go to distinct positions, so the renumbering loses nothing -/
theorem renumbering_injective (g : Graph) (hw : WellFormed g) (es : List (Event × Nat)) (ord : List Nat)
    (h : walkRecL g = some (es, ord)) :
    ord.Nodup ∧ (∀ x, x < g.length ↔ x ∈ ord) ∧ ∀ a b, a ∈ ord → b ∈ ord → pos ord a = pos ord b → a = b := by
  obtain ⟨g1, _, _, hnd, hcov⟩ := rtc g hw es ord h
  exact ⟨hnd, hcov, fun a b ha hb => pos_inj ha hb⟩

/-- the same, stated about `walk` itself (the loop mirroring src/walk/walk.rs; see C01.roundtrip_walk) -/
theorem substituent_order_walk (g : Graph) (hw : WellFormed g) (hok : (walk g).2 = .ok) (hne : (walk g).1 ≠ []) :
    ∃ t g' ord, write? (walk g).1 = some t ∧ (read t).2 = .ok ∧ build? (read t).1 = some (.ok g') ∧
      ord.Nodup ∧ (∀ x, x < g.length ↔ x ∈ ord) ∧
      ∀ x atomX, g[x]? = some atomX → ∃ atom', g'[pos ord x]? = some atom' ∧
        (atom'.bonds = atomX.bonds.map (fun b => ⟨b.kind, pos ord b.tid⟩) ∨
         ∃ pre back post, atomX.bonds = pre ++ back :: post ∧ (∀ o ∈ pre, o.tid ≠ back.tid) ∧
           (∀ o ∈ post, o.tid ≠ back.tid) ∧
           atom'.bonds = (back :: (pre ++ post)).map (fun b => ⟨b.kind, pos ord b.tid⟩)) := by
  obtain ⟨es, ord, hr, hev⟩ := walkRec_of_walk_ok g hw hok
  have hne' : es ≠ [] := by intro e; subst e; simp at hev; exact hne hev
  obtain ⟨t, g', h1, h2, h3, h4⟩ := substituent_order g hw es ord hr hne'
  obtain ⟨hnd, hcov, _⟩ := renumbering_injective g hw es ord hr
  exact ⟨t, g', ord, by rw [← hev]; exact h1, h2, h3, hnd, hcov, h4⟩

/-- THE ARRIVAL BOND, PINNED DOWN.  Through the whole round trip, for every atom `x` of a well-formed adjacency list:
    * if `x` starts a component (its event is a `root`), its re-read bond list is its original list, renumbered — nothing
      is moved;
    * otherwise the re-read list is the original with at most one bond moved to the front, and that bond leads to an atom
      that was visited BEFORE `x` (`pos ord back.tid < pos ord x`) — the traversal can only have arrived from there.
    (Which earlier atom: the one that was the head when `x` was written — the first bond of every non-root atom of the
    re-read graph is the bond to the preceding atom, by C02's denotation.)  Proof of the first clause: when a component
    starts, no visited atom has a bond to an unvisited one (`comps_roots_closed`, Lemmas/OrderL.lean). -/
theorem substituent_order_pinned (g : Graph) (hw : WellFormed g) (es : List (Event × Nat)) (ord : List Nat)
    (h : walkRecL g = some (es, ord)) (hne : es ≠ []) :
    ∃ t g', write? (es.map (·.1)) = some t ∧ (read t).2 = .ok ∧ build? (read t).1 = some (.ok g') ∧
      ∀ x atomX, g[x]? = some atomX → ∃ atom', g'[pos ord x]? = some atom' ∧
        ((∃ k, (Event.root k, x) ∈ es) → atom'.bonds = atomX.bonds.map (fun b => ⟨b.kind, pos ord b.tid⟩)) ∧
        (atom'.bonds = atomX.bonds.map (fun b => ⟨b.kind, pos ord b.tid⟩) ∨
         ∃ pre back post, atomX.bonds = pre ++ back :: post ∧ (∀ o ∈ pre, o.tid ≠ back.tid) ∧ (∀ o ∈ post, o.tid ≠ back.tid) ∧
           back.tid ∈ ord ∧ pos ord back.tid < pos ord x ∧
           atom'.bonds = (back :: (pre ++ post)).map (fun b => ⟨b.kind, pos ord b.tid⟩)) := by
  obtain ⟨g1, hb, hrelP, hnd, hcov⟩ := rtcP g hw es ord h
  have hconf : Conformant (es.map (·.1)) := conformant_of_walkRec g es ord h
  have hne' : es.map (·.1) ≠ [] := by simpa using hne
  obtain ⟨t, hw', hr⟩ := C09.read_write _ (C01.conformantNE_of_nonempty hconf hne')
  have hbuild : build? (read t).1 = some (.ok (g1.map normAtom)) := by
    rw [hr]; simp only; rw [build_norm, hb]; rfl
  -- the closure fact at every root
  have hroots : ∀ e ∈ es, ∀ k, e.1 = .root k → ∃ pre post, ord = pre ++ e.2 :: post ∧ e.2 ∉ pre ∧ Closed g pre pre := by
    have h' := h
    unfold walkRecL at h'
    split at h'
    · cases h'
    · simp only [Option.map_eq_some_iff] at h'
      obtain ⟨⟨es0, ord0, pool0⟩, hc, heq⟩ := h'
      simp only [Prod.mk.injEq] at heq
      obtain ⟨rfl, rfl⟩ := heq
      exact (comps_roots_closed g (recFuel g) (List.range g.length) [] .init es0 ord0 pool0 hc
        (by intro a ha; cases ha)).2
  refine ⟨t, g1.map normAtom, hw', by rw [hr], hbuild, ?_⟩
  intro x atomX hgx
  have hx : x ∈ ord := (hcov x).mp (by
    apply Nat.lt_of_not_le; intro hge
    rw [List.getElem?_eq_none_iff.mpr hge] at hgx; cases hgx)
  obtain ⟨atomX', arr, hgx', harr, hg1⟩ := hrelP.2 x hx
  rw [hgx] at hgx'; cases hgx'
  refine ⟨_, by rw [List.getElem?_map, hg1]; rfl, ?_, ?_⟩
  · -- a root has no arrival atom
    rintro ⟨k, hk⟩
    cases arr with
    | none => simp [normAtom, arrivalFirst]
    | some q =>
      exfalso
      obtain ⟨⟨hq, hlt⟩, back, hback⟩ := harr q rfl
      obtain ⟨pre, post, hsplit, hnot, hclosed⟩ := hroots _ hk k rfl
      simp only at hsplit hnot
      -- q was visited before x, so it lies in `pre`
      have hposx : pos ord x = pre.length := pos_prefix_new hsplit hnd
      have hqpre : q ∈ pre := by
        apply Classical.byContradiction
        intro hqn
        have : pos ord q = pos (x :: post) q + pre.length := by
          rw [hsplit]; unfold pos
          rw [List.idxOf_append, if_neg hqn]
        omega
      -- q is bonded to x, so x is among the atoms reachable from `pre`
      obtain ⟨_, _, tatom, htat, back', hback', _⟩ := hw x atomX hgx back (by
        have : back ∈ bondsTo atomX.bonds q := by rw [hback]; simp
        unfold bondsTo at this; exact (List.mem_filter.mp this).1)
      have hbt : back.tid = q := by
        have : back ∈ bondsTo atomX.bonds q := by rw [hback]; simp
        unfold bondsTo at this; simpa using (List.mem_filter.mp this).2
      rw [hbt] at htat
      have hb'mem : back' ∈ tatom.bonds := by
        have : back' ∈ bondsTo tatom.bonds x := by rw [hback']; simp
        unfold bondsTo at this; exact (List.mem_filter.mp this).1
      have hb'tid : back'.tid = x := by
        have : back' ∈ bondsTo tatom.bonds x := by rw [hback']; simp
        unfold bondsTo at this; simpa using (List.mem_filter.mp this).2
      have := hclosed q hqpre tatom htat back' hb'mem
      rw [hb'tid] at this
      exact hnot this
  · cases arr with
    | none => left; simp [normAtom, arrivalFirst]
    | some q =>
      right
      obtain ⟨⟨hq, hlt⟩, back, hback⟩ := harr q rfl
      obtain ⟨pre, post, h1, h2, h3, h4⟩ := bondsTo_singleton_split hback
      refine ⟨pre, back, post, h1, by rw [h2]; exact h3, by rw [h2]; exact h4, by rw [h2]; exact hq, by rw [h2]; exact hlt, ?_⟩
      simp only [normAtom]
      rw [h1, arrivalFirst_split h2 h3 h4]

/-- COMPONENTS START AT THE LOWEST-NUMBERED UNVISITED ATOM: for every `root` event of the traversal (labelled with the
    atom `x` it starts at), the visit order splits as `pre ++ x :: post` where `pre` — what had been visited before —
    contains every atom with a lower number than `x` and not `x`, and everything visited afterwards has a higher number -/
theorem components_start_at_lowest_unvisited (g : Graph) (hw : WellFormed g) (es : List (Event × Nat)) (ord : List Nat)
    (h : walkRecL g = some (es, ord)) :
    ∀ e ∈ es, ∀ k, e.1 = .root k → ∃ pre post, ord = pre ++ e.2 :: post ∧ e.2 ∉ pre ∧ (∀ z, z < e.2 → z ∈ pre) ∧
      ∀ y ∈ post, e.2 < y := by
  obtain ⟨hnd, _, _⟩ := renumbering_injective g hw es ord h
  unfold walkRecL at h
  split at h
  · cases h
  · simp only [Option.map_eq_some_iff] at h
    obtain ⟨⟨es0, ord0, pool0⟩, hc, heq⟩ := h
    simp only [Prod.mk.injEq] at heq
    obtain ⟨rfl, rfl⟩ := heq
    intro e he k hk
    obtain ⟨pre, post, hsplit, hnot, hbelow⟩ :=
      comps_roots g (recFuel g) (List.range g.length) [] .init es0 ord0 pool0 hc List.pairwise_lt_range
        (by intro i hi z hz; right; simp only [List.mem_range] at hi ⊢; omega) e he k hk
    refine ⟨pre, post, hsplit, hnot, hbelow, ?_⟩
    intro y hy
    rw [hsplit] at hnd
    have hnd' := List.nodup_append.mp hnd
    have hyx : y ≠ e.2 := by
      intro heq; subst heq
      exact (List.nodup_cons.mp hnd'.2.1).1 hy
    have hypre : y ∉ pre := fun hp => hnd'.2.2 y hp y (by simp [hy]) rfl
    have : ¬ y < e.2 := fun hlt => hypre (hbelow y hlt)
    omega

/-- THE VISIT ORDER IS THE TEXTBOOK DEPTH-FIRST PREORDER.  `Spec.dfsOrder` (Purr/Spec/Dfs.lean) knows nothing of events,
    ring numbers, parents or pop counts: start atoms are tried in the order `0, 1, …`, one visited already is passed
    over; at an atom the bond list is gone through in list order, a bond to a visited atom is passed over, a bond to a
    new atom visits that atom — and everything reachable through ITS list — before the next bond is looked at.  The
    order `ord` under which all the theorems of this file renumber the atoms is exactly that order (with any amount of
    fuel at least the traversal's own), and it is the order in which the atom events are handed to the follower. -/
theorem visit_order_is_depth_first (g : Graph) (es : List (Event × Nat)) (ord : List Nat) (h : walkRecL g = some (es, ord)) :
    (∀ fuel, recFuel g ≤ fuel → Spec.dfsOrder g fuel = some ord) ∧ es.filterMap atomLabel = ord := by
  unfold walkRecL at h
  split at h
  · cases h
  · simp only [Option.map_eq_some_iff] at h
    obtain ⟨⟨es0, ord0, pool0⟩, hc, heq⟩ := h
    simp only [Prod.mk.injEq] at heq
    obtain ⟨rfl, rfl⟩ := heq
    refine ⟨?_, ?_⟩
    · intro fuel hle
      exact dfsFrom_mono_le g hle _ _ _ (comps_dfs g _ _ _ _ _ _ _ hc)
    · have := comps_labels g _ _ _ _ _ _ _ hc
      simpa using this.symm

/-- … with ANY amount of fuel on which the textbook search finishes, it finishes with that order (fuel only decides
    between an answer and none) -/
theorem visit_order_unique (g : Graph) (es : List (Event × Nat)) (ord : List Nat) (h : walkRecL g = some (es, ord))
    (fuel : Nat) (o : List Nat) (ho : Spec.dfsOrder g fuel = some o) : o = ord := by
  have h1 := (visit_order_is_depth_first g es ord h).1 (max fuel (recFuel g)) (Nat.le_max_right _ _)
  have h2 : Spec.dfsOrder g (max fuel (recFuel g)) = some o := dfsFrom_mono_le g (Nat.le_max_left _ _) _ _ _ ho
  rw [h1] at h2
  exact (Option.some.inj h2).symm

/-- THE SAME ABOUT `walk` ITSELF (the loop mirroring src/walk/walk.rs): the order under which `substituent_order_walk`
    renumbers the atoms is not just some duplicate-free enumeration — it is the textbook depth-first preorder -/
theorem substituent_order_walk_depth_first (g : Graph) (hw : WellFormed g) (hok : (walk g).2 = .ok) (hne : (walk g).1 ≠ []) :
    ∃ t g' ord, Spec.dfsOrder g (recFuel g) = some ord ∧
      write? (walk g).1 = some t ∧ (read t).2 = .ok ∧ build? (read t).1 = some (.ok g') ∧
      ∀ x atomX, g[x]? = some atomX → ∃ atom', g'[pos ord x]? = some atom' ∧
        (atom'.bonds = atomX.bonds.map (fun b => ⟨b.kind, pos ord b.tid⟩) ∨
         ∃ pre back post, atomX.bonds = pre ++ back :: post ∧ (∀ o ∈ pre, o.tid ≠ back.tid) ∧
           (∀ o ∈ post, o.tid ≠ back.tid) ∧
           atom'.bonds = (back :: (pre ++ post)).map (fun b => ⟨b.kind, pos ord b.tid⟩)) := by
  obtain ⟨es, ord, hr, hev⟩ := walkRec_of_walk_ok g hw hok
  have hne' : es ≠ [] := by intro e; subst e; simp at hev; exact hne hev
  obtain ⟨t, g', h1, h2, h3, h4⟩ := substituent_order g hw es ord hr hne'
  exact ⟨t, g', ord, (visit_order_is_depth_first g es ord hr).1 _ (Nat.le_refl _), by rw [← hev]; exact h1, h2, h3, h4⟩

/-- non-vacuity, and the order on a small case: in `0–1, 0–2, 1–3` with atom 0's list `[2, 1]` the order is 0, 2, 1, 3 -/
example : Spec.dfsOrder [⟨.star, [⟨.elided, 2⟩, ⟨.elided, 1⟩]⟩, ⟨.star, [⟨.elided, 0⟩, ⟨.elided, 3⟩]⟩, ⟨.star, [⟨.elided, 0⟩]⟩,
    ⟨.star, [⟨.elided, 1⟩]⟩] 10 = some [0, 2, 1, 3] := by decide

/-- a newly reached atom's other bonds are pushed in list order (the stack's top is the first one) -/
theorem children_in_list_order (sid tid : Nat) (k : AtomKind) (bs : List Bond) :
    (scanChild sid tid k bs 0).2.2 = (bs.filter (fun o => !(o.tid == sid))).map (fun o => (tid, o)) :=
  scanChild_pushes_eq sid tid k bs 0

/-- the bonds taken out are exactly those back to the atom it was entered from -/
theorem arrival_bond_removed (sid tid : Nat) (k : AtomKind) (bs : List Bond) :
    (scanChild sid tid k bs 0).2.1 = bs.filter (fun o => o.tid == sid) :=
  scanChild_backs sid tid k bs 0

/-- a component's root schedules its whole bond list in order -/
theorem root_in_list_order (g : Graph) (fuel : Nat) (id : Nat) (ids : List Nat) (s : WState) (root : Atom)
    (hv : s.visited.contains id = false) (hr : g[id]? = some root) :
    compLoop g fuel (id :: ids) s =
      (let s0 : WState := { s with visited := id :: s.visited, stack := root.bonds.map (fun b => (id, b)), chain := [id] }
       let r := rootLoop g fuel s0
       match r.2.1 with
       | .ok => (.root root.kind :: r.1 ++ (compLoop g fuel ids r.2.2).1, (compLoop g fuel ids r.2.2).2)
       | v => (.root root.kind :: r.1, v)) := by
  simp only [compLoop, hv, hr]
  rfl

/-- reading back: the builder records the arrival bond first in the new atom's bond list, and appends the
    bond to the new atom at the end of the current head's list -/
theorem builder_arrival_first (s : BState) (sid : Nat) (rest : List Nat) (b : BondKind) (k : AtomKind)
    (hst : s.stack = sid :: rest) (hlt : sid < s.graph.length) :
    bstep s (.extend b k) = some { s with
      stack := s.graph.length :: s.stack
      graph := addEdge (s.graph ++ [⟨k.invert, [⟨b.reverse, .id sid⟩]⟩]) sid ⟨b, .id s.graph.length⟩ } := by
  simp only [bstep, hst, hlt, if_true]

theorem builder_arrival_first_nodes (g : List Node) (sid : Nat) (b : BondKind) (k : AtomKind) (hlt : sid < g.length) :
    (addEdge (g ++ [⟨k.invert, [⟨b.reverse, .id sid⟩]⟩]) sid ⟨b, .id g.length⟩)[g.length]?
      = some ⟨k.invert, [⟨b.reverse, .id sid⟩]⟩ ∧
    ((addEdge (g ++ [⟨k.invert, [⟨b.reverse, .id sid⟩]⟩]) sid ⟨b, .id g.length⟩)[sid]?).map Node.edges
      = (g[sid]?).map (fun n => n.edges ++ [⟨b, .id g.length⟩]) := by
  constructor
  · rw [getElem?_addEdge]
    have : sid ≠ g.length := by omega
    simp [this]
  · rw [getElem?_addEdge, getElem?_snoc_lt _ _ hlt]
    simp
    cases g[sid]? <;> rfl

/-- a ring-closure digit is recorded at its own position of the head's bond list (appended when met) -/
theorem builder_join_in_place (s : BState) (sid : Nat) (rest : List Nat) (b : BondKind) (r : Rnum)
    (hst : s.stack = sid :: rest) (hlt : sid < s.graph.length) (hopen : s.opens.lookup r = none) :
    bstep s (.join b r) = some { s with
      opens := (r, sid) :: s.opens
      graph := addEdge s.graph sid ⟨b, .rnum s.rid sid r⟩
      rid := s.rid + 1 } := by
  simp only [bstep, hst, hlt, if_true, hopen]

end Purr.C12
