/-
  Driver — line-protocol front end of the model (built as `lean_exe purrdriver`).
  One request per line on stdin, one response line per request on stdout.  See DESIGN.md 3.7.
-/
import Purr.Spec.Automaton
import Purr.Model.Feature
import Purr.Model.Token
import Purr.Model.Event
import Purr.Model.Reader
import Purr.Model.Writer
import Purr.Model.Builder
import Purr.Model.Trace
import Purr.Model.Pool
import Purr.Model.Walk
import Purr.Model.WalkRec
import Purr.Model.Valence
open Purr

/-! ### rendering -/

def hexStr (s : Str) : String :=
  if s.isEmpty then "-" else ".".intercalate (s.map (fun c => toString c.toNat))

def unhex (t : String) : Option Str :=
  if t == "-" then some [] else
    (t.splitOn ".").mapM (fun x => x.toNat?.map Char.ofNat)

def optS {α} (f : α → String) : Option α → String
  | none => "_"
  | some a => f a

def idxOf {α} [BEq α] (l : List α) (a : α) : Nat := l.idxOf a

def symS : BracketSymbol → String
  | .star => "*"
  | .element e => s!"E{idxOf Element.all e}"
  | .aromatic a => s!"R{idxOf BracketAromatic.all a}"

def kindS : AtomKind → String
  | .star => "*"
  | .aliphatic a => s!"A{idxOf Aliphatic.all a}"
  | .aromatic a => s!"a{idxOf Aromatic.all a}"
  | .bracket b =>
    "[" ++ optS (fun (n : Number) => toString n.val) b.isotope ++ "," ++ symS b.symbol ++ ","
      ++ optS (fun c => toString (idxOf Configuration.all c)) b.configuration ++ ","
      ++ optS (fun (h : VirtualHydrogen) => toString h.val) b.hcount ++ ","
      ++ optS (fun (q : Charge) => toString q.val) b.charge ++ ","
      ++ optS (fun (n : Number) => toString n.val) b.map ++ "]"

def bondS (b : BondKind) : String := toString (idxOf BondKind.all b)

def eventS : Event → String
  | .root k => s!"R:{kindS k}"
  | .extend b k => s!"X:{bondS b}:{kindS k}"
  | .join b r => s!"J:{bondS b}:{r.val}"
  | .pop d => s!"P:{d}"

def leventS (n : Nat) : LEvent → String
  | .root k a e => s!"R:{kindS k}@{n - a}-{n - e}"
  | .extend b k a e => s!"X:{bondS b}:{kindS k}@{n - a}-{n - e}"
  | .join b r bc a e => s!"J:{bondS b}:{r.val}@{n - bc}-{n - a}-{n - e}"
  | .pop d => s!"P:{d}"

def verdictS (n : Nat) : Verdict → String
  | .ok => "ok"
  | .fail [] => "eol"
  | .fail a => s!"char:{n - a.length}"
  | .panic p => s!"panic:{p}"

def graphS (g : Graph) : String :=
  if g.isEmpty then "-" else
  " ".intercalate (g.map (fun a => kindS a.kind ++ "/" ++ ",".intercalate (a.bonds.map (fun b => s!"{bondS b.kind}:{b.tid}"))))

def buildS : Option (Except BuildError Graph) → String
  | none => "panic"
  | some (.ok g) => "ok " ++ graphS g
  | some (.error (.join s t)) => s!"join:{s}:{t}"
  | some (.error (.rnum i)) => s!"rnum:{i}"

def joinSp (l : List String) : String := if l.isEmpty then "-" else " ".intercalate l

/-! ### parsing -/

def parseOpt {α} (f : String → Option α) (t : String) : Option (Option α) :=
  if t == "_" then some none else (f t).map some

def parseSym (t : String) : Option BracketSymbol :=
  if t == "*" then some .star
  else if t.startsWith "E" then (t.drop 1).toString.toNat? >>= fun i => Element.all[i]? |>.map .element
  else if t.startsWith "R" then (t.drop 1).toString.toNat? >>= fun i => BracketAromatic.all[i]? |>.map .aromatic
  else none

def parseKind (t : String) : Option AtomKind :=
  if t == "*" then some .star
  else if t.startsWith "A" then (t.drop 1).toString.toNat? >>= fun i => Aliphatic.all[i]? |>.map .aliphatic
  else if t.startsWith "a" then (t.drop 1).toString.toNat? >>= fun i => Aromatic.all[i]? |>.map .aromatic
  else if t.startsWith "[" then
    match ((t.drop 1).dropEnd 1).toString.splitOn "," with
    | [iso, sym, cfg, h, q, m] => do
      let iso ← parseOpt (fun x => x.toNat? >>= Number.ofNat?) iso
      let sym ← parseSym sym
      let cfg ← parseOpt (fun x => x.toNat? >>= fun i => Configuration.all[i]?) cfg
      let h ← parseOpt (fun x => x.toNat? >>= VirtualHydrogen.ofNat?) h
      let q ← parseOpt (fun x => x.toInt? >>= Charge.ofInt?) q
      let m ← parseOpt (fun x => x.toNat? >>= Number.ofNat?) m
      pure (.bracket ⟨iso, sym, cfg, h, q, m⟩)
    | _ => none
  else none

def parseBond (t : String) : Option BondKind := t.toNat? >>= fun i => BondKind.all[i]?

def parseEvent (t : String) : Option Event :=
  match t.splitOn ":" with
  | ["R", k] => parseKind k |>.map .root
  | ["X", b, k] => do pure (.extend (← parseBond b) (← parseKind k))
  | ["J", b, r] => do pure (.join (← parseBond b) (← r.toNat? >>= Rnum.ofNat?))
  | ["P", d] => d.toNat?.map .pop
  | _ => none

def parseAtom (t : String) : Option Atom :=
  match t.splitOn "/" with
  | [k, bs] => do
    let k ← parseKind k
    let bs ← if bs == "" then pure [] else (bs.splitOn ",").mapM (fun x =>
      match x.splitOn ":" with
      | [b, tid] => do pure (Bond.mk (← parseBond b) (← tid.toNat?))
      | _ => none)
    pure ⟨k, bs⟩
  | _ => none

def parseGraph (ts : List String) : Option Graph :=
  if ts == ["-"] then some [] else ts.mapM parseAtom

/-! ### requests -/

def traceS : Option TState → String
  | none => "panic"
  | some t =>
    let atoms := ",".intercalate (t.atoms.map (fun (a, b) => s!"{a}-{b}"))
    -- newest binding wins; print each key once, sorted
    let keys := (t.bonds.map (·.1)).eraseDups
    let keys := keys.toArray.qsort (fun a b => a.1 < b.1 || (a.1 == b.1 && a.2 < b.2)) |>.toList
    let bonds := ",".intercalate (keys.map (fun k => s!"{k.1}>{k.2}@{(t.bonds.lookup k).getD 0}"))
    let rnums := ",".intercalate (t.rnums.map (fun (a, b) => s!"{a}-{b}"))
    s!"atoms={atoms};bonds={bonds};rnums={rnums}"

def doRead (s : Str) : String :=
  let n := s.length
  let r := readL s
  let plain := read s
  let es := r.1.map LEvent.erase
  let agree := if es == plain.1 && r.2 == plain.2 then "" else " # RUNMISMATCH"
  let w := match write? es with | some t => hexStr t | none => "panic"
  let b := buildS (build? es)
  let p := match firstViolation none 0 es with | none => "ok" | some i => s!"viol:{i}"
  let d := runDepth .needRoot [0] s
  let gv := match Spec.classify s with | .ok => "ok" | .endOfLine => "eol" | .character i => s!"char:{i}"
  s!"{verdictS n r.2} # G {gv} # EV {joinSp (es.map eventS)} # W {w} # B {b} # T {traceS (trace? s)} # P {p} # D {d}{agree}"

def doEvs (es : List Event) : String :=
  let w := match write? es with | some t => hexStr t | none => "panic"
  let b := buildS (build? es)
  let p := match firstViolation none 0 es with | none => "ok" | some i => s!"viol:{i}"
  s!"W {w} # B {b} # P {p}"

def walkVerdictS : WalkVerdict → String
  | .ok => "ok"
  | .err (.halfBond s t) => s!"half:{s}:{t}"
  | .err (.duplicateBond s t) => s!"dup:{s}:{t}"
  | .err (.unknownTarget s t) => s!"unk:{s}:{t}"
  | .err (.incompatibleBond s t) => s!"inc:{s}:{t}"
  | .err (.loop s) => s!"loop:{s}"
  | .panic p => s!"panic:{p}"

def doWalk (g : Graph) : String :=
  let r := walk g
  let w := match write? r.1 with | some t => hexStr t | none => "panic"
  let p := match firstViolation none 0 r.1 with | none => "ok" | some i => s!"viol:{i}"
  let evr := match walkRec g with | some es => joinSp (es.map eventS) | none => "none"
  s!"{walkVerdictS r.2} # EV {joinSp (r.1.map eventS)} # W {w} # P {p} # EVR {evr}"

def doPool (ps : List (Nat × Nat)) : String :=
  let rec go (p : Pool) (i : Nat) (acc : List String) : List (Nat × Nat) → String
    | [] => joinSp acc.reverse
    | ab :: rest =>
      match p.hit ab with
      | .ok r p' => go p' (i + 1) (toString r.val :: acc) rest
      | .panic _ _ => joinSp acc.reverse ++ s!" panic@{i}"
  go .init 0 [] ps

def listS (l : List Nat) : String := if l.isEmpty then "-" else ",".intercalate (l.map toString)

def chargeIdx (q : Charge) : Nat := if q.val < 0 then (q.val + 15).toNat else (q.val + 14).toNat
def chargeOfIdx (i : Nat) : Option Charge := if i < 15 then Charge.ofInt? ((i : Int) - 15) else Charge.ofInt? ((i : Int) - 14)

def doTxt (ty : String) (i : Nat) : String :=
  let r : Option Str := match ty with
    | "element" => Element.all[i]?.map Element.text
    | "baro" => BracketAromatic.all[i]?.map BracketAromatic.text
    | "aro" => Aromatic.all[i]?.map Aromatic.text
    | "ali" => Aliphatic.all[i]?.map Aliphatic.text
    | "cfg" => Configuration.all[i]?.map Configuration.text
    | "charge" => (chargeOfIdx i).map Charge.text
    | "hcount" => (VirtualHydrogen.ofNat? i).map VirtualHydrogen.text
    | "rnum" => (Rnum.ofNat? i).map Rnum.text
    | "bond" => BondKind.all[i]?.map BondKind.text
    | "number" => (Number.ofNat? i).map Number.text
    | _ => none
  match r with | some t => hexStr t | none => "bad"

def someS : Option Nat → String
  | some n => s!"some {n}"
  | none => "none"

def doConv (name : String) (arg : String) : String :=
  match name with
  | "charge" => match arg.toInt? with
    | some z => someS ((Charge.ofInt? z).map chargeIdx)
    | none => "bad"
  | "hcount" => match arg.toNat? with | some n => someS ((VirtualHydrogen.ofNat? n).map (·.val)) | none => "bad"
  | "rnum" => match arg.toNat? with | some n => someS ((Rnum.ofNat? n).map (·.val)) | none => "bad"
  | "number" => match arg.toNat? with | some n => someS ((Number.ofNat? n).map (·.val)) | none => "bad"
  | "numstr" => match unhex arg with | some s => someS ((Number.ofString? s).map (·.val)) | none => "bad"
  | "baro2aro" => match arg.toNat? >>= (BracketAromatic.all[·]?) with
    | some a => someS ((Aromatic.ofBracketAromatic? a).map (idxOf Aromatic.all)) | none => "bad"
  | "el2ali" => match arg.toNat? >>= (Element.all[·]?) with
    | some e => someS ((Aliphatic.ofElement? e).map (idxOf Aliphatic.all)) | none => "bad"
  | _ => "bad"

def doBack (name : String) (i : Nat) : String :=
  match name with
  | "charge" => match chargeOfIdx i with | some q => toString q.val | none => "bad"
  | "hcount" => match VirtualHydrogen.ofNat? i with | some h => toString h.val | none => "bad"
  | "number" => match Number.ofNat? i with | some n => toString n.val | none => "bad"
  | "baro2el" => match BracketAromatic.all[i]? with | some a => toString (idxOf Element.all a.toElement) | none => "bad"
  | "aro2ali" => match Aromatic.all[i]? with | some a => toString (idxOf Aliphatic.all a.toAliphatic) | none => "bad"
  | "rev" => match BondKind.all[i]? with | some b => bondS b.reverse | none => "bad"
  | "order" => match BondKind.all[i]? with | some b => toString b.order | none => "bad"
  | "tgt_ali" => match Aliphatic.all[i]? with | some a => listS a.targets | none => "bad"
  | "tgt_aro" => match Aromatic.all[i]? with | some a => listS a.targets | none => "bad"
  | _ => "bad"

def doVal (k : AtomKind) (bonds : List Bond) : String :=
  let a : Atom := ⟨k, bonds⟩
  let a0 := Atom.new k
  let hz := match k with
    | .bracket b => (match b.hcount with | some h => toString h.isZero | none => "-")
    | _ => "-"
  s!"T {listS k.targets} # S {a.subvalence} # H {a.suppressedHydrogens} # AR {k.isAromatic} # AA {a.isAromatic} {a0.isAromatic} {a0.bonds.length} # BA {(bonds.filter Bond.isAromatic).length} # BD {(bonds.filter Bond.isDirectional).length} # IV {kindS k.invert} # HZ {hz}"

def parseBondMulti (t : String) : Option (List Bond) :=
  if t == "-" then some [] else
  (t.splitOn ",").foldlM (fun acc x =>
    match x.splitOn "*" with
    | [b, c] => do
      let b ← parseBond b
      let c ← c.toNat?
      pure (acc ++ List.replicate c ⟨b, 0⟩)
    | _ => none) []

def handle (line : String) : String :=
  match line.trimAscii.toString.splitOn " " with
  | ["READ", h] => match unhex h with | some s => doRead s | none => "bad"
  | "EVS" :: ts => match (if ts == ["-"] then some [] else ts.mapM parseEvent) with | some es => doEvs es | none => "bad"
  | "WALK" :: ts => match parseGraph ts with | some g => doWalk g | none => "bad"
  | "POOL" :: ts =>
    match (if ts == ["-"] then some [] else ts.mapM (fun t => match t.splitOn "-" with
      | [a, b] => do pure ((← a.toNat?), (← b.toNat?))
      | _ => none)) with
    | some ps => doPool ps
    | none => "bad"
  | ["TXT", ty, i] => match i.toNat? with | some i => doTxt ty i | none => "bad"
  | ["CONV", name, arg] => doConv name arg
  | ["BACK", name, i] => match i.toNat? with | some i => doBack name i | none => "bad"
  | ["REC", l, r] => match parseBond l, parseBond r with
    | some l, some r => (match reconcile l r with | some (a, b) => s!"some {bondS a} {bondS b}" | none => "none")
    | _, _ => "bad"
  | ["VAL", k, bs] => match parseKind k, parseBondMulti bs with
    | some k, some bs => doVal k bs
    | _, _ => "bad"
  | ["DEB", k, bos] => match parseKind k, bos.toNat? with
    | some k, some bos => (match k.debracket bos with | .ok k' => kindS k' | .panic => "panic")
    | _, _ => "bad"
  | ["KTXT", k] => match parseKind k with | some k => hexStr k.text | none => "bad"
  | _ => "bad"

partial def loop (h : IO.FS.Stream) (out : IO.FS.Stream) : IO Unit := do
  let line ← h.getLine
  if line.isEmpty then return ()
  out.putStrLn (handle line)
  loop h out

def main : IO Unit := do
  let out ← IO.getStdout
  loop (← IO.getStdin) out
  out.flush
