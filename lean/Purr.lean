import Purr.Model.Feature
import Purr.Model.Token
